#!/bin/sh
# builds the engine (offline)
set -e
cd /verif/engine
export GOFLAGS=-mod=mod GOPROXY=off GOSUMDB=off GOTOOLCHAIN=local PATH=/opt/veriftools/go1.26.8/bin:$PATH
mkdir -p /verif/bin
go build -o /verif/bin/gosx ./cmd/gosx
