package main

import (
	"flag"
	"fmt"
	"os"

	"gosx/sx"
)

func main() {
	if len(os.Args) < 2 {
		fmt.Fprintln(os.Stderr, "usage: gosx check|selftest ...")
		os.Exit(2)
	}
	os.Setenv("PATH", "/opt/veriftools/go1.26.8/bin:"+os.Getenv("PATH"))
	os.Setenv("GOFLAGS", "-mod=mod")
	os.Setenv("GOTOOLCHAIN", "local")
	os.Setenv("GOPROXY", "off")
	os.Setenv("GOSUMDB", "off")
	switch os.Args[1] {
	case "check":
		fs := flag.NewFlagSet("check", flag.ExitOnError)
		o := &sx.CheckOpts{}
		fs.StringVar(&o.Repo, "repo", "/repo", "repository root")
		fs.StringVar(&o.Verif, "verif", "/verif", "verif root")
		fs.StringVar(&o.Tier, "tier", "quick", "quick|thorough")
		fs.StringVar(&o.Only, "only", "", "run only entries matching this substring")
		fs.IntVar(&o.Workers, "j", 8, "workers")
		fs.BoolVar(&o.Verbose, "v", false, "verbose")
		fs.BoolVar(&o.Trace, "trace", false, "trace instructions")
		fs.BoolVar(&o.NoReplay, "noreplay", false, "skip native replay")
		fs.StringVar(&o.SolverLog, "solverlog", "", "write solver dialogue of worker 0 here")
		fs.Parse(os.Args[2:])
		if fs.NArg() != 1 {
			fmt.Fprintln(os.Stderr, "usage: gosx check [flags] <property id>")
			os.Exit(2)
		}
		os.Exit(sx.Check(fs.Arg(0), o))
	default:
		fmt.Fprintln(os.Stderr, "unknown command")
		os.Exit(2)
	}
}
