package main

import (
	"fmt"
	"os"
	"time"

	"golang.org/x/tools/go/packages"
	"golang.org/x/tools/go/ssa"
	"golang.org/x/tools/go/ssa/ssautil"
)

func main() {
	t0 := time.Now()
	cfg := &packages.Config{Mode: packages.LoadAllSyntax, Dir: "/repo", BuildFlags: []string{"-tags=verif"}}
	pkgs, err := packages.Load(cfg, os.Args[1:]...)
	if err != nil {
		panic(err)
	}
	fmt.Println("loaded", len(pkgs), time.Since(t0))
	prog, spkgs := ssautil.AllPackages(pkgs, ssa.InstantiateGenerics)
	prog.Build()
	fmt.Println("built", len(spkgs), len(prog.AllPackages()), time.Since(t0))
}
