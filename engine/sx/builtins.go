package sx

import (
	"fmt"
	"go/types"

	"golang.org/x/tools/go/ssa"
)

func (in *Interp) callBuiltin(th *Thread, name string, args []Value, c *ssa.CallCommon) Value {
	tb := in.tb
	switch name {
	case "len":
		switch x := args[0].(type) {
		case *StrV:
			return in.strLen(x)
		case SliceV:
			return x.Len
		case *MapObj:
			return in.mapLen(x)
		case *ChanObj:
			if x == nil {
				return in.c64(0)
			}
			return in.c64(uint64(len(x.buf)))
		case *ArrayV:
			return in.c64(uint64(len(x.E)))
		case Ptr:
			if cc, ok := x.single(); ok && cc != nil {
				return in.c64(uint64(cc.N))
			}
			if c != nil {
				if a, ok := c.Args[0].Type().Underlying().(*types.Pointer); ok {
					return in.c64(uint64(a.Elem().Underlying().(*types.Array).Len()))
				}
			}
		}
	case "cap":
		switch x := args[0].(type) {
		case SliceV:
			return x.Cap
		case *ChanObj:
			if x == nil {
				return in.c64(0)
			}
			return in.c64(uint64(x.cap))
		case *ArrayV:
			return in.c64(uint64(len(x.E)))
		case Ptr:
			if cc, ok := x.single(); ok && cc != nil {
				return in.c64(uint64(cc.N))
			}
		}
	case "append":
		return in.appendSlice(th, args[0].(SliceV), args[1], c)
	case "copy":
		return in.copySlice(th, args[0].(SliceV), args[1])
	case "delete":
		in.mapDelete(th, args[0].(*MapObj), args[1])
		return nil
	case "close":
		in.chanClose(th, args[0].(*ChanObj))
		return nil
	case "panic":
		in.raise(th, args[0])
		return nil
	case "recover":
		return in.doRecover(th)
	case "print", "println":
		return nil
	case "min", "max":
		res := args[0]
		for _, a := range args[1:] {
			res = in.minmax(name == "min", res, a, c.Args[0].Type())
		}
		return res
	case "clear":
		switch x := args[0].(type) {
		case *MapObj:
			if x != nil {
				in.saveMap(x)
				x.Entries = nil
			}
			return nil
		case SliceV:
			n := in.concLen(x.Len, 1<<16)
			for i := 0; i < n; i++ {
				p := in.sliceElem(x, in.c64(uint64(i)))
				in.store(th, p, in.zero(x.Arr.ElemT))
			}
			return nil
		}
	case "real":
		return tb.FConst(64, args[0].(ComplexV).Re)
	case "imag":
		return tb.FConst(64, args[0].(ComplexV).Im)
	case "complex":
		a, b := args[0].(*Term), args[1].(*Term)
		if a.IsConst() && b.IsConst() {
			return ComplexV{fval(a), fval(b)}
		}
	case "String": // unsafe.String(ptr, len)
		p := args[0].(Ptr)
		n := in.toInt64(args[1].(*Term), c.Args[1].Type())
		cc, ok := p.single()
		if !ok {
			cc = in.pickAlt(p)
		}
		if cc == nil {
			return concString("")
		}
		if cc.Parent == nil || !cc.Parent.isArray() {
			panic(unsupported{"unsafe.String on non-array element"})
		}
		return in.bytesToStr(SliceV{cc.Parent, in.c64(uint64(cc.Index)), n, n})
	case "StringData": // unsafe.StringData(s): pointer to a fresh copy of the bytes
		s := in.strToBytes(args[0].(*StrV), types.Typ[types.Uint8])
		if s.Arr == nil || s.Arr.N == 0 {
			return nilPtr(tb)
		}
		return mkPtr(tb, in.kid(s.Arr, 0))
	case "SliceData":
		s := args[0].(SliceV)
		if s.Arr == nil {
			return nilPtr(tb)
		}
		if !s.Off.IsConst() {
			panic(unsupported{"unsafe.SliceData with symbolic offset"})
		}
		if int(s.Off.Val) >= s.Arr.N {
			return nilPtr(tb)
		}
		return mkPtr(tb, in.kid(s.Arr, int(s.Off.Val)))
	case "Slice": // unsafe.Slice(ptr, len)
		p := args[0].(Ptr)
		n := in.toInt64(args[1].(*Term), c.Args[1].Type())
		cc, ok := p.single()
		if !ok {
			cc = in.pickAlt(p)
		}
		if cc == nil {
			z := in.c64(0)
			return SliceV{nil, z, z, z}
		}
		if cc.Parent == nil || !cc.Parent.isArray() {
			panic(unsupported{"unsafe.Slice on non-array element"})
		}
		return SliceV{cc.Parent, in.c64(uint64(cc.Index)), n, n}
	case "ssa:wrapnilchk":
		p := args[0].(Ptr)
		in.mustNot(th, in.nilGuard(p), "value method called using nil pointer")
		return p
	}
	panic(unsupported{fmt.Sprintf("builtin %s(%T)", name, args[0])})
}

func (in *Interp) minmax(isMin bool, a, b Value, t types.Type) Value {
	tb := in.tb
	switch x := a.(type) {
	case *Term:
		y := b.(*Term)
		if x.Sort.K == SFP {
			return in.fpMinMax(isMin, x, y)
		}
		var lt *Term
		if isSigned(t) {
			lt = tb.BvCmp(OpSLt, x, y)
		} else {
			lt = tb.BvCmp(OpULt, x, y)
		}
		if isMin {
			return tb.Ite(lt, x, y)
		}
		return tb.Ite(lt, y, x)
	case *StrV:
		y := b.(*StrV)
		lt := in.strLess(x, y, false)
		if isMin {
			return in.ite(lt, x, y)
		}
		return in.ite(lt, y, x)
	}
	panic(unsupported{"min/max operand"})
}

func (in *Interp) fpMinMax(isMin bool, x, y *Term) *Term {
	tb := in.tb
	nan := tb.Or(tb.FUn(OpFIsNaN, x, 0), tb.FUn(OpFIsNaN, y, 0))
	var pick *Term
	if isMin {
		pick = tb.Ite(tb.FCmp(OpFLt, x, y), x, tb.Ite(tb.FCmp(OpFLt, y, x), y, x))
	} else {
		pick = tb.Ite(tb.FCmp(OpFLt, y, x), x, tb.Ite(tb.FCmp(OpFLt, x, y), y, x))
	}
	// signed zeros: treat as equal (imprecision: -0 vs +0 order) -- note it
	nanv := tb.FBits(x.Sort.W, func() uint64 {
		if x.Sort.W == 32 {
			return 0x7fc00000
		}
		return 0x7ff8000000000001
	}())
	return tb.Ite(nan, nanv, pick)
}

func (in *Interp) doRecover(th *Thread) Value {
	n := len(th.frames)
	if n >= 2 && th.frames[n-1].isDefer {
		parent := th.frames[n-2]
		if parent.panicVal != nil && !parent.recovered {
			parent.recovered = true
			v := *parent.panicVal
			if iv, ok := v.(IfaceV); ok {
				return iv
			}
			return IfaceV{T: types.Typ[types.String], V: v}
		}
	}
	return IfaceV{}
}

// ---- append / copy ----

func (in *Interp) appendSlice(th *Thread, s SliceV, more Value, c *ssa.CallCommon) Value {
	tb := in.tb
	var elemT types.Type
	if c != nil {
		elemT = c.Args[0].Type().Underlying().(*types.Slice).Elem()
	} else if s.Arr != nil {
		elemT = s.Arr.ElemT
	}
	var src SliceV
	switch m := more.(type) {
	case SliceV:
		src = m
	case *StrV:
		src = in.strToBytes(m, elemT)
	default:
		panic(unsupported{fmt.Sprintf("append of %T", more)})
	}
	if src.Arr == nil || (src.Len.IsConst() && src.Len.Val == 0) {
		return s
	}
	// need concrete lengths of the source; the destination length may stay symbolic if capacity is
	// concrete and suffices
	maxSrc := src.Arr.N
	n := in.concLen(src.Len, maxSrc)
	if n == 0 {
		return s
	}
	if elemT == nil {
		elemT = src.Arr.ElemT
	}
	if s.Arr == nil {
		arr := in.newArrayCell(elemT, growCap(0, n))
		dst := SliceV{arr, in.c64(0), in.c64(uint64(n)), in.c64(uint64(arr.N))}
		in.copyElems(th, dst, src, n)
		return dst
	}
	newLen := tb.BvBin(OpAdd, s.Len, in.c64(uint64(n)))
	fits := tb.BvCmp(OpULe, newLen, s.Cap)
	var ok bool
	if fits.IsConst() {
		ok = fits.IsTrue()
	} else {
		ok = in.decide(fits)
	}
	if ok {
		// in place; destination positions s.Len .. s.Len+n
		dst := SliceV{s.Arr, tb.BvBin(OpAdd, s.Off, s.Len), in.c64(uint64(n)), in.c64(uint64(n))}
		in.copyElems(th, dst, src, n)
		return SliceV{s.Arr, s.Off, newLen, s.Cap}
	}
	// reallocate: need concrete old length
	oldLen := in.concLen(s.Len, s.Arr.N)
	arr := in.newArrayCell(elemT, growCap(oldLen, oldLen+n))
	dst := SliceV{arr, in.c64(0), in.c64(uint64(oldLen + n)), in.c64(uint64(arr.N))}
	in.copyElems(th, dst, SliceV{s.Arr, s.Off, in.c64(uint64(oldLen)), s.Cap}, oldLen)
	tail := SliceV{arr, in.c64(uint64(oldLen)), in.c64(uint64(n)), in.c64(uint64(n))}
	in.copyElems(th, tail, src, n)
	return dst
}

func growCap(old, need int) int {
	c := old * 2
	if c < need {
		c = need
	}
	if c < 4 {
		c = 4
	}
	return c
}

// copyElems copies n (concrete) elements from src to dst (handles overlap by reading first).
func (in *Interp) copyElems(th *Thread, dst, src SliceV, n int) {
	vals := make([]Value, n)
	for i := 0; i < n; i++ {
		vals[i] = in.load(th, in.sliceElem(src, in.c64(uint64(i))))
	}
	for i := 0; i < n; i++ {
		in.store(th, in.sliceElem(dst, in.c64(uint64(i))), vals[i])
	}
}

func (in *Interp) copySlice(th *Thread, dst SliceV, srcv Value) Value {
	tb := in.tb
	var src SliceV
	switch m := srcv.(type) {
	case SliceV:
		src = m
	case *StrV:
		if dst.Arr == nil {
			return in.c64(0)
		}
		src = in.strToBytes(m, dst.Arr.ElemT)
	}
	if dst.Arr == nil || src.Arr == nil {
		return in.c64(0)
	}
	n := tb.Ite(tb.BvCmp(OpULt, dst.Len, src.Len), dst.Len, src.Len)
	if n.IsConst() {
		in.copyElems(th, dst, src, int(n.Val))
		return n
	}
	// symbolic count: guarded element-wise copy up to the static bound
	max := dst.Arr.N
	if src.Arr.N < max {
		max = src.Arr.N
	}
	if max > in.cfg.MaxAlts || !dst.Off.IsConst() || !src.Off.IsConst() {
		k := in.concLen(n, max)
		in.copyElems(th, dst, src, k)
		return in.c64(uint64(k))
	}
	do, so := int(dst.Off.Val), int(src.Off.Val)
	if dst.Arr.N-do < max {
		max = dst.Arr.N - do
	}
	if src.Arr.N-so < max {
		max = src.Arr.N - so
	}
	vals := make([]Value, max)
	for i := 0; i < max; i++ {
		vals[i] = in.loadCell(in.kid(src.Arr, so+i))
	}
	for i := 0; i < max; i++ {
		c := in.kid(dst.Arr, do+i)
		old := in.loadCell(c)
		g := tb.BvCmp(OpULt, in.c64(uint64(i)), n)
		in.storeCell(c, in.iteOrFork(g, vals[i], old))
	}
	return n
}

// ---- maps ----

type mapUndo struct {
	m   *MapObj
	old []*MapEntry
}

func (in *Interp) newMap(t *types.Map) *MapObj {
	in.mapSeq++
	return &MapObj{ID: in.mapSeq, KeyT: t.Key(), ElemT: t.Elem(), epoch: in.epoch}
}

func (in *Interp) saveMap(m *MapObj) {
	if m.epoch != in.epoch && !m.saved && !in.noTrail {
		cp := make([]*MapEntry, len(m.Entries))
		for i, e := range m.Entries {
			ce := *e
			cp[i] = &ce
		}
		in.mapTrail = append(in.mapTrail, mapUndo{m, cp})
		m.saved = true
	}
}

func (in *Interp) mapLen(m *MapObj) *Term {
	if m == nil {
		return in.c64(0)
	}
	n := in.c64(0)
	for _, e := range m.Entries {
		n = in.tb.BvBin(OpAdd, n, in.tb.Ite(e.Present, in.c64(1), in.c64(0)))
	}
	return n
}

func (in *Interp) mapUpdate(th *Thread, m *MapObj, k, v Value) {
	tb := in.tb
	if m == nil {
		in.goPanic(th, "nilmap", "assignment to entry in nil map")
		panic(rtPanicNow{})
	}
	in.saveMap(m)
	none := tb.True
	for _, e := range m.Entries {
		hit := tb.And(e.Present, in.valEq(k, e.K))
		if hit.IsFalse() {
			continue
		}
		if hit.IsTrue() {
			e.V = v
			return
		}
		e.V = in.iteOrFork(hit, v, e.V)
		none = tb.And(none, tb.Not(hit))
	}
	if none.IsFalse() {
		return
	}
	// reuse a definitely-absent entry with the same key if any
	for _, e := range m.Entries {
		if e.Present.IsFalse() && in.valEq(k, e.K).IsTrue() {
			e.V, e.Present = v, none
			return
		}
	}
	m.Entries = append(m.Entries, &MapEntry{K: k, V: v, Present: none})
}

func (in *Interp) mapDelete(th *Thread, m *MapObj, k Value) {
	if m == nil {
		return
	}
	in.saveMap(m)
	tb := in.tb
	for _, e := range m.Entries {
		hit := in.valEq(k, e.K)
		e.Present = tb.And(e.Present, tb.Not(hit))
	}
	// drop definitely-absent entries
	out := m.Entries[:0:0]
	for _, e := range m.Entries {
		if !e.Present.IsFalse() {
			out = append(out, e)
		}
	}
	m.Entries = out
}

func (in *Interp) mapLookup(m *MapObj, k Value, elemT types.Type) (Value, *Term) {
	tb := in.tb
	res := in.zero(elemT)
	found := tb.False
	if m == nil {
		return res, found
	}
	for i := len(m.Entries) - 1; i >= 0; i-- {
		e := m.Entries[i]
		hit := tb.And(e.Present, in.valEq(k, e.K))
		if hit.IsFalse() {
			continue
		}
		if hit.IsTrue() {
			// definite hit: since keys are unique among present entries, this is the answer
			return e.V, tb.True
		}
		res = in.iteOrFork(hit, e.V, res)
		found = tb.Or(found, hit)
	}
	return res, found
}

func (in *Interp) lookup(th *Thread, x *ssa.Lookup, xv Value, kv Value) Value {
	switch m := xv.(type) {
	case *MapObj:
		et := x.X.Type().Underlying().(*types.Map).Elem()
		v, ok := in.mapLookup(m, kv, et)
		if x.CommaOk {
			return TupleV{v, ok}
		}
		return v
	case *StrV:
		return in.index(th, m, kv.(*Term), x.Index.Type())
	}
	panic(unsupported{fmt.Sprintf("lookup on %T", xv)})
}

// ---- range / next ----

func (in *Interp) mkRange(th *Thread, xv Value) Value {
	switch x := xv.(type) {
	case *MapObj:
		it := &IterV{Map: x}
		if x != nil {
			it.Order = append(it.Order, x.Entries...)
		}
		return it
	case *StrV:
		return &IterV{Str: x}
	}
	panic(unsupported{fmt.Sprintf("range over %T", xv)})
}

func (in *Interp) execNext(th *Thread, fr *Frame, x *ssa.Next) {
	tb := in.tb
	it := in.get(fr, x.Iter).(*IterV)
	tt := x.Type().(*types.Tuple)
	if !x.IsString {
		for it.Pos < len(it.Order) {
			var e *MapEntry
			if in.cfg.MapOrderAll && len(it.Order)-it.Pos > 1 && len(it.Order) <= 4 {
				k := it.Pos + in.choose(len(it.Order)-it.Pos, "maporder")
				it.Order[it.Pos], it.Order[k] = it.Order[k], it.Order[it.Pos]
			}
			e = it.Order[it.Pos]
			it.Pos++
			// still present in the live map?
			live := tb.False
			for _, le := range it.Map.Entries {
				if le == e {
					live = e.Present
				}
			}
			if live.IsFalse() {
				continue
			}
			if !live.IsTrue() && !in.decide(live) {
				continue
			}
			in.set(fr, x, TupleV{tb.True, e.K, e.V})
			fr.ip++
			return
		}
		in.set(fr, x, TupleV{tb.False, in.zeroOrNil(tt.At(1).Type()), in.zeroOrNil(tt.At(2).Type())})
		fr.ip++
		return
	}
	// string iteration
	s := it.Str
	if s.Conc {
		if it.StrPos >= len(s.S) {
			in.set(fr, x, TupleV{tb.False, in.c64(0), tb.Const(32, 0)})
			fr.ip++
			return
		}
		pos := it.StrPos
		var r rune
		var sz int
		for i, rr := range s.S[pos:] {
			if i == 0 {
				r = rr
				sz = len(string(rr))
				if rr == 0xFFFD {
					// may be an invalid byte (size 1) or a real U+FFFD (size 3)
					if len(s.S) >= pos+3 && s.S[pos:pos+3] == "�" {
						sz = 3
					} else {
						sz = 1
					}
				}
				break
			}
		}
		it.StrPos += sz
		in.set(fr, x, TupleV{tb.True, in.c64(uint64(pos)), tb.Const(32, uint64(r))})
		fr.ip++
		return
	}
	// symbolic: decode via unicode/utf8.DecodeRuneInString run from source
	pos := it.StrPos
	atEnd := tb.BvCmp(OpULe, s.N, in.c64(uint64(pos)))
	if pos >= len(s.B) || (!atEnd.IsFalse() && (atEnd.IsTrue() || in.decide(atEnd))) {
		in.set(fr, x, TupleV{tb.False, in.c64(0), tb.Const(32, 0)})
		fr.ip++
		return
	}
	utf8 := in.prog.ImportedPackage("unicode/utf8")
	if utf8 == nil {
		panic(unsupported{"range over symbolic string needs unicode/utf8 loaded"})
	}
	dec := utf8.Func("DecodeRuneInString")
	rest := in.strSlice(s, in.c64(uint64(pos)), s.N)
	in.callThen(th, &FuncV{Fn: dec}, []Value{rest}, func(res Value) {
		tv := res.(TupleV)
		sz := in.concLen(tv[1].(*Term), 4)
		it.StrPos = pos + sz
		in.set(fr, x, TupleV{tb.True, in.c64(uint64(pos)), tv[0]})
		fr.ip++
	})
}

func (in *Interp) zeroOrNil(t types.Type) Value {
	if b, ok := t.(*types.Basic); ok && b.Kind() == types.Invalid {
		return in.tb.False
	}
	return in.zero(t)
}
