package sx

import (
	"encoding/json"
	"fmt"
	"os"
	"os/exec"
	"path/filepath"
	"sort"
	"strconv"
	"strings"
	"time"
)

type CheckOpts struct {
	Repo, Verif string
	Tier        string
	Only        string
	Workers     int
	Verbose     bool
	Trace       bool
	NoReplay    bool
	SolverLog   string
}

type KnownFinding struct {
	ID       string `json:"id"`
	Property string `json:"property"`
	Status   string `json:"status"` // open | fixed
	What     string `json:"what"`
	Commit   string `json:"commit,omitempty"`
}

type KnownFile struct {
	Findings []KnownFinding `json:"findings"`
}

func loadKnown(verif string) map[string]KnownFinding {
	out := map[string]KnownFinding{}
	data, err := os.ReadFile(filepath.Join(verif, "known_findings.json"))
	if err != nil {
		return out
	}
	var kf KnownFile
	if json.Unmarshal(data, &kf) == nil {
		for _, f := range kf.Findings {
			out[f.ID] = f
		}
	}
	return out
}

type entryReport struct {
	Harness   string   `json:"harness"`
	File      string   `json:"file"`
	Paths     int      `json:"paths"`
	Completed int      `json:"completed"`
	Pruned    int      `json:"pruned_by_assume"`
	Steps     int64    `json:"ssa_instructions"`
	Obligs    int      `json:"obligations"`
	Discharged int     `json:"discharged"`
	Queries   int      `json:"queries"`
	QSat      int      `json:"sat"`
	QUnsat    int      `json:"unsat"`
	QUnknown  int      `json:"unknown"`
	Fallbacks int      `json:"portfolio_fallbacks"`
	SolverS   map[string]float64 `json:"solver_s"`
	Covers    []string `json:"covers"`
	Bounds    string   `json:"bounds"`
	WallS     float64  `json:"wall_s"`
	Inconclusive []string `json:"inconclusive,omitempty"`
}

// Check runs all harness files of a property; returns the process exit code.
func Check(id string, o *CheckOpts) int {
	t0 := time.Now()
	seed, _ := strconv.Atoi(os.Getenv("VERIF_SEED"))
	if t := os.Getenv("VERIF_TIER"); t != "" && o.Tier == "" {
		o.Tier = t
	}
	files, _ := filepath.Glob(filepath.Join(o.Verif, "harness", id+"*.go"))
	sort.Strings(files)
	if len(files) == 0 {
		fmt.Printf("no harness for %s\n", id)
		return 2
	}
	known := loadKnown(o.Verif)
	scratch, err := os.MkdirTemp("/var/tmp", "gosx-")
	if err != nil {
		scratch, _ = os.MkdirTemp("", "gosx-")
	}
	defer os.RemoveAll(scratch)

	var reports []entryReport
	var inconclusive []string
	var violations []*Finding
	var knownHits []*Finding
	var samples []interface{}
	funcs := map[string]bool{}
	notes := map[string]int{}
	var assumptions, outside []string
	totalPaths, validated := 0, 0
	var totalSteps int64
	coverMissing := 0

	for _, file := range files {
		h, err := ParseHarness(file)
		if err != nil {
			fmt.Println("harness error:", err)
			return 2
		}
		if err := h.Load(o.Repo); err != nil {
			fmt.Printf("load failed for %s: %v\n", file, err)
			return 2
		}
		assumptions = append(assumptions, h.Assumptions...)
		outside = append(outside, h.Outside...)
		if o.Verbose {
			fmt.Fprintf(os.Stderr, "loaded %s: %d entries in %v\n", file, len(h.Entries), h.LoadDur)
		}
		var replays []*replayCase
		for _, fn := range h.Entries {
			if o.Only != "" && !strings.Contains(fn.Name(), o.Only) {
				continue
			}
			if o.Tier == "quick" && h.ThoroughOnly[fn.Name()] {
				continue
			}
			if o.Tier == "thorough" && h.QuickOnly[fn.Name()] {
				continue
			}
			eo := h.Opts(fn.Name(), o.Tier)
			cfg := &Config{LoopBound: eo.Loop, StepBound: eo.Steps, Preempt: eo.Preempt, MaxAlts: 1024,
				Stubs: h.Stubs, Noops: h.Noops, Cuts: h.Cuts, MapOrderAll: eo.MapOrderAll, Trace: o.Trace, Lazy: h.Lazy, PoolReuse: h.PoolReuse}
			to := h.Timeout
			if to == 0 {
				to = 20 * time.Second
				if o.Tier == "thorough" {
					to = 120 * time.Second
				}
			}
			ex := &Explorer{Prog: h.Prog, HPkg: h.Pkg, Fn: fn, Cfg: cfg, Timeout: to, Workers: o.Workers, Solver: h.Solver,
				MaxPaths: eo.Paths, TmpDir: scratch, Verbose: o.Verbose, SolverLog: o.SolverLog}
			res := ex.Run()
			rep := entryReport{Harness: fn.Name(), File: filepath.Base(file), Paths: res.Paths, Completed: res.Completed, Pruned: res.Pruned,
				Steps: res.Steps, Obligs: res.Obligations, Discharged: res.Discharged, Queries: res.Queries.Queries,
				QSat: res.Queries.Sat, QUnsat: res.Queries.UnsatN, QUnknown: res.Queries.UnknownN, Fallbacks: res.Queries.Fallbacks,
				SolverS: map[string]float64{}, WallS: res.Wall.Seconds(),
				Bounds: fmt.Sprintf("loop=%d steps=%d preempt=%d paths<=%d solver_timeout=%s", eo.Loop, eo.Steps, eo.Preempt, eo.Paths, to)}
			for k, v := range res.Queries.ByBackend {
				rep.SolverS[k] = v.Seconds()
			}
			stubbed := false
			for k := range res.Notes {
				if strings.HasPrefix(k, "stub:") {
					stubbed = true
				}
			}
			for l, w := range res.Covers {
				rep.Covers = append(rep.Covers, l)
				if w != nil {
					replays = append(replays, &replayCase{entry: fn.Name(), f: w, skip: stubbed && h.NoReplayStubbed})
					if len(samples) < 12 {
						samples = append(samples, map[string]interface{}{"harness": fn.Name(), "cover": l, "inputs": w.Nondets, "observed": w.Detail})
					}
				}
			}
			sort.Strings(rep.Covers)
			if len(res.Covers) == 0 {
				coverMissing++
				inconclusive = append(inconclusive, fn.Name()+": no verifCover witness reached (vacuous harness?)")
			}
			rep.Inconclusive = dedup(res.Inconclusive)
			for _, m := range rep.Inconclusive {
				inconclusive = append(inconclusive, fn.Name()+": "+m)
			}
			perLabel := map[string]int{}
			for _, f := range res.Findings {
				key := f.Label + "|" + f.KF + "|" + f.Kind
				perLabel[key]++
				if perLabel[key] > 2 {
					continue
				}
				replays = append(replays, &replayCase{entry: fn.Name(), f: f, skip: stubbed && h.NoReplayStubbed})
			}
			for f := range res.Functions {
				funcs[f] = true
			}
			for k, v := range res.Notes {
				notes[k] += v
			}
			totalPaths += res.Paths
			totalSteps += res.Steps
			reports = append(reports, rep)
			fmt.Printf("[%s] %s: paths=%d (done %d, pruned %d) steps=%d obligations=%d/%d queries=%d (sat %d unsat %d unknown %d) findings=%d covers=%d %.1fs\n",
				id, fn.Name(), res.Paths, res.Completed, res.Pruned, res.Steps, res.Discharged, res.Obligations, res.Queries.Queries,
				res.Queries.Sat, res.Queries.UnsatN, res.Queries.UnknownN, len(res.Findings), len(res.Covers), res.Wall.Seconds())
			for _, m := range rep.Inconclusive {
				fmt.Printf("    INCONCLUSIVE %s\n", m)
			}
		}
		// native replay
		if len(replays) > 0 {
			if !o.NoReplay && !h.NoReplay {
				if err := nativeReplay(h, o, scratch, replays); err != nil {
					inconclusive = append(inconclusive, "native replay failed: "+err.Error())
				}
			}
			for _, rc := range replays {
				f := rc.f
				if f.Kind == "cover" {
					if rc.status == "match" {
						validated++
					} else if rc.status != "" && rc.status != "skipped" {
						inconclusive = append(inconclusive, fmt.Sprintf("%s: cover witness %q did not replay natively: %s", rc.entry, f.Label, rc.status))
					}
					continue
				}
				f.Confirmed = rc.status
				if rc.status == "match" {
					validated++
				}
				if rc.status != "match" && rc.status != "" && rc.status != "skipped" {
					inconclusive = append(inconclusive, fmt.Sprintf("%s: counterexample for %q did not reproduce natively (%s): encoding or stub mismatch", rc.entry, f.Label, rc.status))
					continue
				}
				if f.Known {
					if k, ok := known[f.KF]; ok && k.Status == "open" && k.Property == id {
						knownHits = append(knownHits, f)
						continue
					}
				}
				violations = append(violations, f)
			}
		}
		h.Prog = nil
	}

	// report
	exit := 0
	seenKF := map[string]bool{}
	for _, f := range knownHits {
		if !seenKF[f.KF] {
			seenKF[f.KF] = true
			fmt.Printf("KNOWN-FINDING: property=%s %s: %s\n", id, f.KF, known[f.KF].What)
		}
	}
	os.MkdirAll(filepath.Join(o.Verif, "replay"), 0o755)
	seenV := map[string]bool{}
	nviol := 0
	for _, f := range violations {
		key := f.Harness + "|" + f.Label
		if seenV[key] {
			continue
		}
		seenV[key] = true
		nviol++
		path := filepath.Join(o.Verif, "replay", fmt.Sprintf("%s-%s-%d.json", id, f.Harness, nviol))
		writeReplay(path, id, f)
		fmt.Printf("VIOLATION property=%s replay=%s\n", id, path)
		fmt.Printf("    harness=%s kind=%s label=%q at %s replay=%s inputs=%s\n", f.Harness, f.Kind, f.Label, f.Pos, f.Confirmed, nondetSummary(f.Nondets))
		exit = 1
	}
	if exit == 0 && len(inconclusive) > 0 {
		exit = 2
		for _, m := range dedup(inconclusive) {
			fmt.Printf("INCONCLUSIVE property=%s %s\n", id, m)
		}
	}
	// evidence
	var fl []string
	for f := range funcs {
		if strings.Contains(f, "google.golang.org/grpc") && !strings.Contains(f, "verif") {
			fl = append(fl, strings.ReplaceAll(f, "google.golang.org/grpc", "grpc"))
		}
	}
	sort.Strings(fl)
	var nl []string
	for _, k := range sortedKeys(notes) {
		nl = append(nl, fmt.Sprintf("%s (x%d)", k, notes[k]))
	}
	if len(samples) == 0 {
		samples = append(samples, "no witness")
	}
	for _, n := range nl {
		if strings.HasPrefix(n, "init: skipped") && strings.Contains(n, "google.golang.org/grpc") {
			fmt.Printf("NOTE %s\n", n)
		}
	}
	var q, qs, qu, qk int
	solver := map[string]float64{}
	for _, r := range reports {
		q += r.Queries
		qs += r.QSat
		qu += r.QUnsat
		qk += r.QUnknown
		for k, v := range r.SolverS {
			solver[k] += v
		}
	}
	ev := map[string]interface{}{
		"property_id": id,
		"tier":        o.Tier,
		"seed":        seed,
		"level":       "model_checking",
		"coverage": map[string]interface{}{
			"states":                        max1(totalPaths),
			"transitions":                   max1(int(totalSteps)),
			"traces_validated_against_impl": validated,
			"samples":                       samples,
			"explanation":                   "states = feasible symbolic paths (x schedules) explored by the SSA executor; transitions = SSA instructions executed symbolically; traces_validated = solver models (cover witnesses and counterexamples) replayed against the native build of the same harness",
			"functions_encoded":             fl,
			"harnesses":                     reports,
			"queries":                       map[string]int{"total": q, "sat": qs, "unsat": qu, "unknown": qk},
			"solver_s":                      solver,
			"engine_notes":                  nl,
			"outside_claim":                 outside,
			"known_findings_hit":            keys(seenKF),
			"inconclusive":                  dedup(inconclusive),
			"exhaustive":                    len(inconclusive) == 0,
		},
		"assumptions": append(assumptions, "data-race freedom between visible operations", "Go 1.26.8 standard library sources (SSA) and amd64 float->int conversion semantics"),
		"wall_s":      time.Since(t0).Seconds(),
		"violations":  nviol,
	}
	os.MkdirAll(filepath.Join(o.Verif, "evidence"), 0o755)
	data, _ := json.MarshalIndent(ev, "", " ")
	os.WriteFile(filepath.Join(o.Verif, "evidence", id+".json"), data, 0o644)
	fmt.Printf("[%s] tier=%s exit=%d paths=%d validated=%d wall=%.1fs\n", id, o.Tier, exit, totalPaths, validated, time.Since(t0).Seconds())
	return exit
}

func max1(n int) int {
	if n < 1 {
		return 1
	}
	return n
}

func keys(m map[string]bool) []string {
	out := []string{}
	for k := range m {
		out = append(out, k)
	}
	sort.Strings(out)
	return out
}

func dedup(in []string) []string {
	seen := map[string]bool{}
	var out []string
	for _, s := range in {
		if !seen[s] {
			seen[s] = true
			out = append(out, s)
		}
	}
	return out
}

func nondetSummary(nd []NondetValue) string {
	var sb strings.Builder
	for i, n := range nd {
		if i > 12 {
			sb.WriteString(" ...")
			break
		}
		fmt.Fprintf(&sb, " %s=%s", n.Name, n.Value)
	}
	return sb.String()
}

func writeReplay(path, id string, f *Finding) {
	doc := map[string]interface{}{"property": id, "harness": f.Harness, "kind": f.Kind, "label": f.Label, "pos": f.Pos,
		"nondets": f.Nondets, "path": f.Path, "native_replay": f.Confirmed}
	data, _ := json.MarshalIndent(doc, "", " ")
	os.WriteFile(path, data, 0o644)
}

// ---- native replay ----

type replayCase struct {
	entry  string
	f      *Finding
	status string // match | mismatch... | skipped
	out    string
	skip   bool // entry ran with stubs that have no native twin
}

func nativeReplay(h *Harness, o *CheckOpts, scratch string, cases []*replayCase) error {
	dir := filepath.Join(scratch, "replay-"+h.PkgName)
	os.MkdirAll(dir, 0o755)
	hf := filepath.Join(dir, "harness.go")
	pf := filepath.Join(dir, "prelude.go")
	tf := filepath.Join(dir, "replay_test.go")
	os.WriteFile(hf, []byte(h.Src), 0o644)
	os.WriteFile(pf, []byte(strings.ReplaceAll(PreludeSrc, "%PKG%", h.PkgName)), 0o644)
	var tb strings.Builder
	fmt.Fprintf(&tb, "//go:build verif\n\npackage %s\n\nimport (\n\t\"os\"\n\t\"testing\"\n)\n\nfunc TestVerifReplay(t *testing.T) {\n\tm := map[string]func(){\n", h.PkgName)
	for _, e := range h.Entries {
		fmt.Fprintf(&tb, "\t\t%q: %s,\n", e.Name(), e.Name())
	}
	tb.WriteString("\t}\n\tverifRun(m[os.Getenv(\"VERIF_HARNESS\")])\n}\n")
	os.WriteFile(tf, []byte(tb.String()), 0o644)
	pdir := filepath.Join(o.Repo, h.PkgDir)
	ov := map[string]map[string]string{"Replace": {
		filepath.Join(pdir, "zz_verif_harness.go"):     hf,
		filepath.Join(pdir, "zz_verif_prelude.go"):     pf,
		filepath.Join(pdir, "zz_verif_replay_test.go"): tf,
	}}
	ovd, _ := json.Marshal(ov)
	ovf := filepath.Join(dir, "overlay.json")
	os.WriteFile(ovf, ovd, 0o644)
	bin := filepath.Join(dir, "replay.test")
	cmd := exec.Command("go", "test", "-c", "-vet=off", "-tags", "verif", "-overlay", ovf, "-o", bin, "./"+h.PkgDir)
	cmd.Dir = o.Repo
	cmd.Env = GoEnv()
	if out, err := cmd.CombinedOutput(); err != nil {
		return fmt.Errorf("go test -c: %v\n%s", err, tail(string(out), 2000))
	}
	for i, rc := range cases {
		if rc.skip {
			rc.status = "skipped"
			continue
		}
		vec := filepath.Join(dir, fmt.Sprintf("vec%d.json", i))
		data, _ := json.Marshal(map[string]interface{}{"nondets": rc.f.Nondets})
		os.WriteFile(vec, data, 0o644)
		c := exec.Command(bin, "-test.run", "^TestVerifReplay$", "-test.v", "-test.timeout", "60s")
		c.Dir = pdir
		c.Env = append(GoEnv(), "VERIF_HARNESS="+rc.entry, "VERIF_REPLAY="+vec)
		out, _ := c.CombinedOutput()
		rc.out = string(out)
		rc.status = judgeReplay(rc)
		if o.Verbose {
			fmt.Fprintf(os.Stderr, "  replay %s %s %q -> %s\n", rc.entry, rc.f.Kind, rc.f.Label, rc.status)
			if rc.status != "match" {
				fmt.Fprintf(os.Stderr, "    inputs:%s\n    native output: %s\n", nondetSummary(rc.f.Nondets), tail(rc.out, 400))
			}
		}
	}
	return nil
}

func tail(s string, n int) string {
	if len(s) > n {
		return s[len(s)-n:]
	}
	return s
}

func judgeReplay(rc *replayCase) string {
	lines := strings.Split(rc.out, "\n")
	f := rc.f
	switch f.Kind {
	case "cover":
		obs := ""
		for _, l := range lines {
			if strings.HasPrefix(l, "VERIF-OBS ") {
				obs += strings.TrimPrefix(l, "VERIF-OBS ")
			}
			if l == "VERIF-COVER "+f.Label {
				if obs == f.Detail {
					return "match"
				}
				return fmt.Sprintf("observation mismatch: engine %q native %q", f.Detail, obs)
			}
		}
		return "cover not reached natively: " + tail(rc.out, 300)
	case "assert":
		for _, l := range lines {
			if l == "VERIF-ASSERT-FAIL "+f.Label {
				return "match"
			}
		}
		return "assertion did not fail natively"
	case "panic", "uncaught-panic":
		for _, l := range lines {
			if strings.HasPrefix(l, "VERIF-PANIC") || strings.HasPrefix(l, "panic:") || strings.HasPrefix(l, "fatal error:") {
				return "match"
			}
		}
		return "no panic natively"
	case "deadlock":
		for _, l := range lines {
			if strings.Contains(l, "all goroutines are asleep") || strings.Contains(l, "test timed out") {
				return "match"
			}
		}
		return "no deadlock natively"
	}
	return "skipped"
}
