package sx

import "os"

var forkDebug = os.Getenv("GOSX_FORKS") != ""
