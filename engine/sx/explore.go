package sx

import (
	"fmt"
	"os"
	"runtime/debug"
	"sort"
	"strings"
	"sync"
	"time"

	"golang.org/x/tools/go/ssa"
)

// Finding is a (potential) violation produced by a path.
type Finding struct {
	Harness string
	Kind    string // assert | panic | deadlock | uncaught-panic
	Label   string
	Pos     string
	Model   Model
	Nondets []NondetValue
	Path    []int
	KF      string // known finding id if it matched
	Known   bool
	Confirmed string // replay status
	Detail  string
}

type NondetValue struct {
	Name  string `json:"name"`
	Kind  string `json:"kind"`
	Value string `json:"value"` // decimal for scalars; hex for bytes/strings
}

type PathResult struct {
	End       string // done | assume | bound | unsupported | panic | deadlock
	Msg       string
}

type HarnessResult struct {
	Name        string
	Paths       int
	Completed   int
	Pruned      int // ended by infeasible assume
	Inconclusive []string
	Findings    []*Finding
	Covers      map[string]*Finding // label -> witness
	Steps       int64
	Forks       int
	Queries     SolverStats
	Notes       map[string]int
	Obligations int
	Discharged  int
	Wall        time.Duration
	Functions   map[string]bool
	Schedules   int
}

// Explorer runs all paths of one harness function.
type Explorer struct {
	Prog     *ssa.Program
	HPkg     *ssa.Package
	Fn       *ssa.Function
	Cfg      *Config
	Timeout  time.Duration
	Workers  int
	Solver   string
	WantInt  bool
	MaxPaths int
	TmpDir   string
	Verbose  bool
	SolverLog string

	mu    sync.Mutex
	work  [][]int
	busy  int
	cond  *sync.Cond
	res   *HarnessResult
	stop  bool
	dumpSeq int
}

func (ex *Explorer) Run() *HarnessResult {
	ex.res = &HarnessResult{Name: ex.Fn.Name(), Covers: map[string]*Finding{}, Notes: map[string]int{}, Functions: map[string]bool{}}
	ex.res.Queries.ByBackend = map[string]time.Duration{}
	ex.cond = sync.NewCond(&ex.mu)
	ex.work = [][]int{nil}
	t0 := time.Now()
	var wg sync.WaitGroup
	nw := ex.Workers
	if nw < 1 {
		nw = 1
	}
	for w := 0; w < nw; w++ {
		wg.Add(1)
		go func(w int) {
			defer wg.Done()
			ex.worker(w)
		}(w)
	}
	wg.Wait()
	ex.res.Wall = time.Since(t0)
	return ex.res
}

func (ex *Explorer) take() ([]int, bool) {
	ex.mu.Lock()
	defer ex.mu.Unlock()
	for {
		if ex.stop {
			return nil, false
		}
		if n := len(ex.work); n > 0 {
			p := ex.work[n-1]
			ex.work = ex.work[:n-1]
			ex.busy++
			return p, true
		}
		if ex.busy == 0 {
			ex.cond.Broadcast()
			return nil, false
		}
		ex.cond.Wait()
	}
}

func (ex *Explorer) finish() {
	ex.mu.Lock()
	ex.busy--
	ex.cond.Broadcast()
	ex.mu.Unlock()
}

func (ex *Explorer) push(p []int) {
	ex.mu.Lock()
	ex.work = append(ex.work, p)
	ex.cond.Signal()
	ex.mu.Unlock()
}

type workerCtx struct {
	in   *Interp
	sess *Session
	qs   SolverStats
}

func (ex *Explorer) worker(w int) {
	var logf *os.File
	if ex.SolverLog != "" && w == 0 {
		logf, _ = os.Create(ex.SolverLog)
		defer logf.Close()
	}
	var in *Interp
	var sess *Session
	defer func() {
		if sess != nil {
			sess.Close()
		}
		if in != nil && in.sessInt != nil {
			in.sessInt.Close()
		}
	}()
	for {
		prefix, ok := ex.take()
		if !ok {
			return
		}
		if in == nil {
			in = NewInterp(ex.Prog, ex.HPkg, ex.Cfg, ex)
			kind := ex.Solver
			if kind == "" {
				kind = "z3new"
			}
			var err error
			if logf != nil {
				sess, err = NewSession(kind, ex.Timeout, logf)
			} else {
				sess, err = NewSession(kind, ex.Timeout, nil)
			}
			if err != nil {
				panic(err)
			}
			in.sess = sess
			in.qs.ByBackend = map[string]time.Duration{}
		}
		pr := in.runPath(ex.Fn, prefix)
		ex.collect(in, pr)
		ex.finish()
	}
}

func (ex *Explorer) collect(in *Interp, pr PathResult) {
	ex.mu.Lock()
	defer ex.mu.Unlock()
	r := ex.res
	r.Paths++
	switch pr.End {
	case "done":
		r.Completed++
	case "assume":
		r.Pruned++
	case "panic", "deadlock":
		r.Completed++
	default:
		r.Inconclusive = append(r.Inconclusive, pr.End+": "+pr.Msg)
	}
	r.Steps += in.steps
	r.Findings = append(r.Findings, in.findings...)
	for l, f := range in.coverW {
		if old, ok := r.Covers[l]; !ok || old == nil {
			r.Covers[l] = f
		}
	}
	for k, v := range in.notes {
		r.Notes[k] += v
	}
	in.notes = map[string]int{}
	r.Obligations += in.nObl
	r.Discharged += in.nDis
	q := &r.Queries
	q.Queries += in.qs.Queries
	q.Sat += in.qs.Sat
	q.UnsatN += in.qs.UnsatN
	q.UnknownN += in.qs.UnknownN
	q.Fallbacks += in.qs.Fallbacks
	q.Time += in.qs.Time
	for k, v := range in.qs.ByBackend {
		q.ByBackend[k] += v
	}
	in.qs = SolverStats{ByBackend: map[string]time.Duration{}}
	for f := range in.funcInfo {
		r.Functions[f.String()] = true
	}
	if ex.MaxPaths > 0 && r.Paths >= ex.MaxPaths && !ex.stop {
		ex.stop = true
		r.Inconclusive = append(r.Inconclusive, fmt.Sprintf("bound: path budget %d exhausted", ex.MaxPaths))
		ex.cond.Broadcast()
	}
	if ex.Verbose {
		fmt.Fprintf(os.Stderr, "  path %d end=%s %s steps=%d log=%v\n", r.Paths, pr.End, pr.Msg, in.steps, in.log)
	}
}

// ---- per-path machinery in the interpreter ----

func (in *Interp) resetPath() {
	// undo writes to long-lived cells
	for i := len(in.trail) - 1; i >= 0; i-- {
		in.trail[i].c.Val = in.trail[i].old
	}
	in.trail = in.trail[:0]
	for i := len(in.mapTrail) - 1; i >= 0; i-- {
		u := in.mapTrail[i]
		u.m.Entries = u.old
		u.m.saved = false
	}
	in.mapTrail = in.mapTrail[:0]
	in.epoch++
	in.pc = in.tb.True
	in.pcList = in.pcList[:0]
	in.log = in.log[:0]
	in.threads = nil
	in.cur = nil
	in.preempts = 0
	in.obligs = nil
	in.nondetSeq = map[string]int{}
	in.nondets = nil
	in.nondetInfo = nil
	in.observes = nil
	in.side = map[*Cell]interface{}{}
	in.uniqPath = nil
	in.lazyDirty = false
	in.now = nil
	in.timers = nil
	in.steps = 0
	in.findings = nil
	in.coverW = map[string]*Finding{}
	in.nObl, in.nDis = 0, 0
	in.tseq = 0
	in.quiesce = nil
	in.holdTimers = false
	in.simulTimers = false
	in.guard = nil
	in.facts = newFacts()
}

func (in *Interp) addPC(c *Term) {
	if c.IsTrue() {
		return
	}
	in.pc = in.tb.And(in.pc, c)
	in.pcList = append(in.pcList, c)
	in.facts.record(c, true)
}

// query runs a satisfiability check of pc-list plus extra, with fallbacks.
func (in *Interp) query(asserts []*Term, vars []*Term) (Result, Model) {
	for _, a := range asserts {
		if a.IsFalse() {
			return Unsat, nil
		}
	}
	t0 := time.Now()
	hard, fp := false, false
	for _, a := range asserts {
		hard = hard || a.Hard
		fp = fp || a.HasFP
	}
	var r Result = Unknown
	var m Model
	if fp && os.Getenv("GOSX_NOFPABS") == "" {
		// over-approximate symbolic fp.mul / fp.div first: unsat of the abstraction is conclusive
		if abs, lemmas, n := in.tb.abstractFP(asserts); n > 0 {
			ta := time.Now()
			ra, _, _ := in.sess.Check(append(append([]*Term{}, abs...), lemmas...), nil)
			in.qs.ByBackend["fp-abstraction"] += time.Since(ta)
			if ra == Unsat {
				in.note("fp: decided by the mul/div abstraction with IEEE lemmas")
				in.qs.Queries++
				in.qs.UnsatN++
				in.qs.Time += time.Since(t0)
				return Unsat, nil
			}
		}
	}
	if hard && !fp && in.sess.kind != "cvc5int" {
		if in.sessInt == nil {
			in.sessInt, _ = NewSession("cvc5int", 5*time.Second, nil)
		}
		if in.sessInt != nil {
			r, m, _ = in.sessInt.Check(asserts, vars)
			in.qs.ByBackend["cvc5int"] += time.Since(t0)
		}
	}
	if r == Unknown {
		t1 := time.Now()
		r, m, _ = in.sess.Check(asserts, vars)
		in.qs.ByBackend[in.sess.kind] += time.Since(t1)
	}
	in.qs.Queries++
	if r == Unknown {
		in.qs.Fallbacks++
		script := Script(asserts, vars, 0)
		t1 := time.Now()
		var who string
		// last resort: every back end in parallel with a generous budget (only reached when the session solvers gave up,
		// e.g. on a loaded machine; a longer wait here is better than an inconclusive run)
		pto := 4 * in.ex.Timeout
		if pto < 90*time.Second {
			pto = 90 * time.Second
		}
		r, m, who = RunPortfolio(script, vars, pto, true, in.ex.TmpDir)
		if who != "" {
			in.qs.ByBackend[who] += time.Since(t1)
		} else {
			in.qs.ByBackend["portfolio-unknown"] += time.Since(t1)
		}
	}
	in.qs.Time += time.Since(t0)
	if dd := os.Getenv("GOSX_DUMP"); dd != "" && (r == Unknown || time.Since(t0) > 5*time.Second) {
		in.ex.mu.Lock()
		in.ex.dumpSeq++
		n := in.ex.dumpSeq
		in.ex.mu.Unlock()
		os.WriteFile(fmt.Sprintf("%s/q%d-%s.smt2", dd, n, r), []byte(Script(asserts, vars, 0)), 0o644)
	}
	switch r {
	case Sat:
		in.qs.Sat++
		if m != nil {
			in.lastModels = append(in.lastModels, m)
			if len(in.lastModels) > 8 {
				in.lastModels = in.lastModels[1:]
			}
		}
	case Unsat:
		in.qs.UnsatN++
	default:
		in.qs.UnknownN++
	}
	return r, m
}

// feasible: is pc && c satisfiable? Unknown ends the path as inconclusive.
func (in *Interp) feasible(c *Term) bool {
	if c.IsFalse() {
		return false
	}
	if q := in.facts.eval(c); q != 0 {
		in.factHits++
		return q == 1
	}
	// model cache: a recent model of the pc that also satisfies c
	for i := len(in.lastModels) - 1; i >= 0; i-- {
		m := in.lastModels[i]
		memo := map[*Term]uint64{}
		if v, ok := Eval(in.pc, m, memo); ok && v == 1 {
			if v2, ok2 := Eval(c, m, memo); ok2 && v2 == 1 {
				in.cacheHits++
				return true
			}
		}
	}
	r, _ := in.query([]*Term{in.pc, c}, in.nondets)
	if forkDebug && r == Unsat {
		s := c.String()
		if len(s) > 300 {
			s = s[:300]
		}
		fmt.Fprintf(os.Stderr, "UNSAT %s :: %s\n", in.curPos(in.cur), s)
	}
	if r == Unknown {
		panic(pathEnd{"unknown", "solver returned unknown on a feasibility query at " + in.curPos(in.cur)})
	}
	return r == Sat
}

// decide forks on a symbolic condition; returns the branch taken on this path.
func (in *Interp) decide(c *Term) bool {
	if c.IsConst() {
		return c.Val == 1
	}
	if q := in.facts.eval(c); q != 0 {
		// implied by the path condition: no decision, no solver call
		in.factHits++
		return q == 1
	}
	if in.guard != nil {
		panic(ifconvAbort{})
	}
	if len(in.log) < len(in.prefix) {
		ch := in.prefix[len(in.log)]
		in.log = append(in.log, ch)
		// encoded: 0/1 = choice with alternative pending elsewhere; 2/3 = forced
		t := ch&1 == 1
		if t {
			in.addPC(c)
		} else {
			in.addPC(in.tb.Not(c))
		}
		return t
	}
	nc := in.tb.Not(c)
	var ft, ff bool
	if in.cfg.Lazy && (c.HasFP || in.pc.HasFP) {
		// optimistic forking: both branches are explored without a solver call; the path condition
		// is checked for satisfiability when the path ends abnormally or reaches a cover point,
		// and every obligation query carries the full path condition (infeasible paths are unsat).
		ft, ff = true, true
		in.lazyDirty = true
	} else {
		ft = in.feasible(c)
		ff = true // pc is feasible, so if c is not then !c is
		if ft {
			ff = in.feasible(nc)
		}
	}
	switch {
	case ft && ff:
		alt := append(append([]int{}, in.log...), 0)
		in.ex.push(alt)
		if forkDebug {
			fmt.Fprintf(os.Stderr, "FORK %s\n", in.curPos(in.cur))
		}
		in.stats.Forks++
		in.log = append(in.log, 1)
		in.addPC(c)
		return true
	case ft:
		in.log = append(in.log, 3)
		in.addPC(c)
		return true
	default:
		in.log = append(in.log, 2)
		in.addPC(nc)
		return false
	}
}

// choose makes an n-way nondeterministic choice (scheduler, verifChoice, map order).
func (in *Interp) choose(n int, tag string) int {
	if n <= 1 {
		return 0
	}
	if in.guard != nil {
		panic(ifconvAbort{})
	}
	if len(in.log) < len(in.prefix) {
		ch := in.prefix[len(in.log)]
		in.log = append(in.log, ch)
		return ch >> 2
	}
	for k := n - 1; k >= 1; k-- {
		alt := append(append([]int{}, in.log...), k<<2)
		in.ex.push(alt)
	}
	in.stats.Forks += n - 1
	in.log = append(in.log, 0)
	return 0
}

// concretize forks over the feasible values of t in [lo,hi].
func (in *Interp) concretize(t *Term, lo, hi uint64) uint64 {
	if t.IsConst() {
		return t.Val
	}
	for v := lo; v < hi; v++ {
		if in.decide(in.tb.Eq(t, in.tb.Const(t.Sort.W, v))) {
			return v
		}
	}
	in.addPC(in.tb.Eq(t, in.tb.Const(t.Sort.W, hi)))
	return hi
}

// runPath executes the harness once following prefix, then discharges obligations.
func (in *Interp) runPath(fn *ssa.Function, prefix []int) (pr PathResult) {
	in.resetPath()
	in.prefix = prefix
	defer func() {
		if r := recover(); r != nil {
			switch e := r.(type) {
			case pathEnd:
				pr = PathResult{End: e.kind, Msg: e.msg}
			case unsupported:
				pr = PathResult{End: "unsupported", Msg: e.msg + " at " + in.safePos()}
			default:
				if os.Getenv("GOSX_CRASH") != "" {
					panic(r)
				}
				st := string(debug.Stack())
				if i := strings.Index(st, "panic("); i >= 0 {
					st = st[i:]
				}
				if len(st) > 900 {
					st = st[:900]
				}
				pr = PathResult{End: "unsupported", Msg: "engine error: " + fmt.Sprint(r) + " at " + in.safePos() + "\n" + st}
			}
		}
		if in.lazyDirty && pr.End != "assume" && pr.End != "done" {
			// the path may be infeasible (optimistic forks): settle it before reporting anything
			if r, _ := in.query([]*Term{in.pc}, nil); r == Unsat {
				pr = PathResult{End: "assume", Msg: "infeasible (lazy fork)"}
			}
		}
		if pr.End != "assume" {
			in.discharge()
		}
		if pr.End == "panic" {
			in.reportNow("uncaught-panic", pr.Msg)
		}
		if pr.End == "deadlock" {
			in.reportNow("deadlock", pr.Msg)
		}
	}()
	in.ensureInit(in.hpkg)
	main := &Thread{id: 0, name: "main"}
	in.threads = []*Thread{main}
	in.cur = main
	in.pushFrame(main, fn, nil, nil, -1)
	in.schedule()
	return PathResult{End: "done"}
}

func (in *Interp) safePos() (s string) {
	defer func() {
		if recover() != nil {
			s = "?"
		}
	}()
	if in.cur == nil {
		return "?"
	}
	return in.curPos(in.cur) + " [" + in.stack(in.cur) + "]"
}

// nondetValues extracts the replay vector from a model.
func (in *Interp) nondetValues(m Model) []NondetValue {
	var out []NondetValue
	for _, ni := range in.nondetInfo {
		nv := NondetValue{Name: ni.Name, Kind: ni.Kind}
		switch ni.Kind {
		case "bytes", "string":
			n := m[ni.Len.Name]
			var sb strings.Builder
			for i := 0; i < int(n) && i < len(ni.Bytes); i++ {
				fmt.Fprintf(&sb, "%02x", m[ni.Bytes[i].Name]&0xff)
			}
			nv.Value = sb.String()
		case "choice":
			nv.Value = fmt.Sprint(ni.Len.Val)
		default:
			v := m[ni.Var.Name]
			nv.Value = fmt.Sprint(v)
		}
		out = append(out, nv)
	}
	return out
}

// discharge checks all pending obligations of the path with one query (then individually on sat).
func (in *Interp) discharge() {
	if len(in.obligs) == 0 {
		return
	}
	tb := in.tb
	in.nObl += len(in.obligs)
	any := tb.False
	for _, o := range in.obligs {
		any = tb.Or(any, tb.And(o.PC, o.Cond))
	}
	r, _ := in.query([]*Term{any}, nil)
	if r == Unsat {
		in.nDis += len(in.obligs)
		return
	}
	for _, o := range in.obligs {
		viol := tb.And(o.PC, o.Cond)
		if o.KF != "" {
			// first: violations outside the known-finding characterisation
			r, m := in.query([]*Term{viol, tb.Not(o.KFCond)}, in.nondets)
			if r == Sat {
				in.addFinding(o, m, false)
				continue
			}
			if r == Unknown {
				in.inconclusive("unknown on obligation " + o.Label)
				continue
			}
			r, m = in.query([]*Term{viol, o.KFCond}, in.nondets)
			switch r {
			case Sat:
				in.addFinding(o, m, true)
			case Unknown:
				in.inconclusive("unknown on obligation " + o.Label)
			default:
				in.nDis++
			}
			continue
		}
		r, m := in.query([]*Term{viol}, in.nondets)
		switch r {
		case Sat:
			in.addFinding(o, m, false)
		case Unknown:
			in.inconclusive("unknown on obligation " + o.Label + " at " + o.Pos)
		default:
			in.nDis++
		}
	}
}

func (in *Interp) inconclusive(msg string) {
	in.ex.mu.Lock()
	in.ex.res.Inconclusive = append(in.ex.res.Inconclusive, msg)
	in.ex.mu.Unlock()
}

func (in *Interp) addFinding(o Obligation, m Model, known bool) {
	f := &Finding{Harness: in.ex.Fn.Name(), Kind: o.Kind, Label: o.Label, Pos: o.Pos, Model: m,
		Nondets: in.nondetValues(m), Path: append([]int{}, in.log...)}
	if known {
		f.KF = o.KF
		f.Known = true
	}
	in.findings = append(in.findings, f)
}

// reportNow records a violation that holds on the whole current (feasible) path.
func (in *Interp) reportNow(kind, msg string) {
	r, m := in.query([]*Term{in.pc}, in.nondets)
	if r != Sat {
		in.inconclusive("could not get model for " + kind + ": " + msg)
		return
	}
	f := &Finding{Harness: in.ex.Fn.Name(), Kind: kind, Label: msg, Pos: in.safePos(), Model: m,
		Nondets: in.nondetValues(m), Path: append([]int{}, in.log...)}
	in.findings = append(in.findings, f)
}

func sortedKeys(m map[string]int) []string {
	var ks []string
	for k := range m {
		ks = append(ks, k)
	}
	sort.Strings(ks)
	return ks
}
