package sx

import (
	"fmt"
	"strings"
)

// sprintfSym formats like fmt.Sprintf but keeps symbolic strings and %02X of symbolic bytes exact.
// Anything else symbolic becomes the opaque marker "<?>" (noted in the evidence).
func (in *Interp) sprintfSym(format string, args []Value) *StrV {
	out := concString("")
	lit := func(s string) { out = in.strConcat(out, concString(s)) }
	argi := 0
	i := 0
	for i < len(format) {
		j := strings.IndexByte(format[i:], '%')
		if j < 0 {
			lit(format[i:])
			break
		}
		lit(format[i : i+j])
		i += j
		// parse verb
		k := i + 1
		for k < len(format) && strings.ContainsRune("+-# 0123456789.*[]", rune(format[k])) {
			k++
		}
		if k >= len(format) {
			lit(format[i:])
			break
		}
		spec := format[i : k+1]
		verb := format[k]
		i = k + 1
		if verb == '%' {
			lit("%")
			continue
		}
		if argi >= len(args) {
			lit("%!" + string(verb) + "(MISSING)")
			continue
		}
		a := args[argi]
		argi++
		if n, ok := in.toNative(a, nil); ok {
			lit(fmt.Sprintf(spec, n))
			continue
		}
		v := a
		if iv, ok := v.(IfaceV); ok {
			v = iv.V
		}
		switch x := v.(type) {
		case *StrV:
			if (verb == 's' || verb == 'v') && len(spec) == 2 {
				out = in.strConcat(out, x)
				continue
			}
		case *Term:
			if x.Sort.K == SBV && x.Sort.W == 8 && (spec == "%02X" || spec == "%02x") {
				out = in.strConcat(out, in.hexByte(x, verb == 'X'))
				continue
			}
			if x.Sort.K == SBV && x.Sort.W == 8 && spec == "%c" {
				// bytes >= 0x80 print as 2-byte UTF-8; handle ASCII exactly, else opaque
				out = in.strConcat(out, in.runeToStr(in.tb.ZExt(32, x)))
				continue
			}
		}
		in.note("fmt: opaque argument for " + spec)
		lit("<?>")
	}
	return out
}

func (in *Interp) hexByte(x *Term, upper bool) *StrV {
	tb := in.tb
	digits := "0123456789abcdef"
	if upper {
		digits = "0123456789ABCDEF"
	}
	nib := func(n *Term) *Term { // n is BV4
		res := tb.Const(8, uint64(digits[15]))
		for k := 14; k >= 0; k-- {
			res = tb.Ite(tb.Eq(n, tb.Const(4, uint64(k))), tb.Const(8, uint64(digits[k])), res)
		}
		return res
	}
	return &StrV{B: []*Term{nib(tb.Extract(7, 4, x)), nib(tb.Extract(3, 0, x))}, N: in.c64(2)}
}

// runeToStr encodes a (possibly symbolic) rune as UTF-8, like string(rune).
func (in *Interp) runeToStr(r *Term) *StrV {
	tb := in.tb
	if r.Sort.W != 32 {
		// int -> string: out-of-range values become U+FFFD
		bad := tb.Or(tb.BvCmp(OpSLt, r, tb.Const(r.Sort.W, 0)), tb.BvCmp(OpSLt, tb.Const(r.Sort.W, 0x10FFFF), r))
		r32 := tb.Extract(31, 0, r)
		if r.Sort.W < 32 {
			r32 = tb.SExt(32, r)
			bad = tb.False
		}
		r = tb.Ite(bad, tb.Const(32, 0xFFFD), r32)
	}
	c := func(v uint64) *Term { return tb.Const(32, v) }
	invalid := tb.Or(tb.BvCmp(OpSLt, r, c(0)), tb.Or(tb.BvCmp(OpSLt, c(0x10FFFF), r),
		tb.And(tb.BvCmp(OpSLe, c(0xD800), r), tb.BvCmp(OpSLe, r, c(0xDFFF)))))
	r = tb.Ite(invalid, c(0xFFFD), r)
	is1 := tb.BvCmp(OpULt, r, c(0x80))
	is2 := tb.BvCmp(OpULt, r, c(0x800))
	is3 := tb.BvCmp(OpULt, r, c(0x10000))
	b8 := func(t *Term) *Term { return tb.Extract(7, 0, t) }
	shr := func(n uint64) *Term { return tb.BvBin(OpLShr, r, c(n)) }
	and3f := func(t *Term) *Term { return tb.BvBin(OpBAnd, t, c(0x3F)) }
	or := func(t *Term, v uint64) *Term { return tb.BvBin(OpBOr, t, c(v)) }
	// byte 0
	b0 := tb.Ite(is1, b8(r), tb.Ite(is2, b8(or(shr(6), 0xC0)), tb.Ite(is3, b8(or(shr(12), 0xE0)), b8(or(shr(18), 0xF0)))))
	b1 := tb.Ite(is2, b8(or(and3f(r), 0x80)), tb.Ite(is3, b8(or(and3f(shr(6)), 0x80)), b8(or(and3f(shr(12)), 0x80))))
	b2 := tb.Ite(is3, b8(or(and3f(r), 0x80)), b8(or(and3f(shr(6)), 0x80)))
	b3 := b8(or(and3f(r), 0x80))
	n := tb.Ite(is1, in.c64(1), tb.Ite(is2, in.c64(2), tb.Ite(is3, in.c64(3), in.c64(4))))
	return in.normStr(&StrV{B: []*Term{b0, b1, b2, b3}, N: n})
}

// sprintSym is fmt.Sprint / Sprintln over possibly symbolic strings: operands that are strings are
// concatenated exactly (Sprint adds a space only between two non-string operands); other operands
// must be concrete.
func (in *Interp) sprintSym(args []Value, ln bool) *StrV {
	out := concString("")
	prevStr := true
	for i, a := range args {
		v := a
		if iv, ok := v.(IfaceV); ok {
			v = iv.V
		}
		sv, isStr := v.(*StrV)
		if i > 0 && (ln || (!isStr && !prevStr)) {
			out = in.strConcat(out, concString(" "))
		}
		if isStr {
			out = in.strConcat(out, sv)
		} else if n, ok := in.toNative(a, nil); ok {
			out = in.strConcat(out, concString(fmt.Sprint(n)))
		} else {
			in.note("fmt: opaque argument for Sprint")
			out = in.strConcat(out, concString("<?>"))
		}
		prevStr = isStr
	}
	if ln {
		out = in.strConcat(out, concString("\n"))
	}
	return out
}
