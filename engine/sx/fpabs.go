package sx

import "fmt"

// Floating-point abstraction. Bit-blasted 64-bit fp.mul / fp.div chains over symbolic operands do not
// finish in any of the installed solvers. For VALIDITY queries (is pc && !cond unsatisfiable?) the
// engine therefore first asks an over-approximation: every fp.mul / fp.div whose operands are both
// symbolic is replaced by a fresh variable constrained only by lemmas that hold for every IEEE-754
// binary operation with round-to-nearest-even (sign rules, NaN propagation, neutral element,
// monotonicity). unsat of the abstraction implies unsat of the exact query; sat proves nothing and
// the exact query is asked next.

type fpAbsEntry struct {
	op   Op
	a, b *Term // abstracted operands
	v    *Term // fresh result variable
}

func (tb *TB) abstractFP(asserts []*Term) (out []*Term, lemmas []*Term, n int) {
	memo := map[*Term]*Term{}
	var entries []fpAbsEntry
	var rec func(t *Term) *Term
	rec = func(t *Term) *Term {
		if !t.HasFP || !t.sym || len(t.Args) == 0 {
			return t
		}
		if r, ok := memo[t]; ok {
			return r
		}
		args := make([]*Term, len(t.Args))
		changed := false
		for i, a := range t.Args {
			args[i] = rec(a)
			if args[i] != a {
				changed = true
			}
		}
		var r *Term
		if (t.Op == OpFMul || t.Op == OpFDiv) && t.Args[0].sym && t.Args[1].sym {
			v := tb.Var(fmt.Sprintf("fpabs!%d", t.ID), t.Sort)
			entries = append(entries, fpAbsEntry{t.Op, args[0], args[1], v})
			r = v
		} else if changed {
			r = tb.mk(&Term{Op: t.Op, Sort: t.Sort, Args: args, Val: t.Val, Name: t.Name, X: t.X, Y: t.Y})
		} else {
			r = t
		}
		memo[t] = r
		return r
	}
	for _, a := range asserts {
		out = append(out, rec(a))
	}
	if len(entries) == 0 {
		return asserts, nil, 0
	}
	w := entries[0].v.Sort.W
	zero := tb.FConst(w, 0)
	one := tb.FConst(w, 1)
	ge0 := func(x *Term) *Term { return tb.FCmp(OpFLe, zero, x) } // false for NaN
	le0 := func(x *Term) *Term { return tb.FCmp(OpFLe, x, zero) }
	nan := func(x *Term) *Term { return tb.FUn(OpFIsNaN, x, 0) }
	inf := func(x *Term) *Term { return tb.FUn(OpFIsInf, x, 0) }
	isZero := func(x *Term) *Term { return tb.FCmp(OpFEq, x, zero) }
	le := func(x, y *Term) *Term { return tb.FCmp(OpFLe, x, y) }
	add := func(l *Term) { lemmas = append(lemmas, l) }
	for _, e := range entries {
		if e.v.Sort.W != w {
			continue
		}
		a, b, v := e.a, e.b, e.v
		if e.op == OpFMul {
			// NaN exactly when an operand is NaN or the product is inf * 0
			add(tb.Eq(nan(v), tb.Or(tb.Or(nan(a), nan(b)), tb.Or(tb.And(inf(a), isZero(b)), tb.And(isZero(a), inf(b))))))
			// sign rules
			add(tb.Implies(tb.And(tb.And(ge0(a), ge0(b)), tb.Not(nan(v))), ge0(v)))
			add(tb.Implies(tb.And(tb.And(le0(a), le0(b)), tb.Not(nan(v))), ge0(v)))
			add(tb.Implies(tb.And(tb.And(ge0(a), le0(b)), tb.Not(nan(v))), le0(v)))
			add(tb.Implies(tb.And(tb.And(le0(a), ge0(b)), tb.Not(nan(v))), le0(v)))
			// neutral element (x * 1 is exact)
			add(tb.Implies(tb.FCmp(OpFEq, b, one), tb.Or(tb.FCmp(OpFEq, v, a), nan(a))))
			add(tb.Implies(tb.FCmp(OpFEq, a, one), tb.Or(tb.FCmp(OpFEq, v, b), nan(b))))
			// rounding is monotone, so scaling a non-negative value by a factor >= 1 does not shrink it ...
			nn := tb.Not(nan(v))
			add(tb.Implies(tb.And(nn, tb.And(ge0(a), le(one, b))), le(a, v)))
			add(tb.Implies(tb.And(nn, tb.And(ge0(b), le(one, a))), le(b, v)))
			// ... and by a factor in [0,1] does not grow it
			add(tb.Implies(tb.And(nn, tb.And(ge0(a), tb.And(ge0(b), le(b, one)))), le(v, a)))
			add(tb.Implies(tb.And(nn, tb.And(ge0(b), tb.And(ge0(a), le(a, one)))), le(v, b)))
			// magnitudes: |b| <= 1 does not grow |a|, |b| >= 1 does not shrink it (any signs)
			absf := func(x *Term) *Term { return tb.FUn(OpFAbs, x, 0) }
			add(tb.Implies(tb.And(nn, le(absf(b), one)), le(absf(v), absf(a))))
			add(tb.Implies(tb.And(nn, le(absf(a), one)), le(absf(v), absf(b))))
			add(tb.Implies(tb.And(nn, le(one, absf(b))), le(absf(a), absf(v))))
			add(tb.Implies(tb.And(nn, le(one, absf(a))), le(absf(b), absf(v))))
		} else {
			// division: sign and monotonicity facts for a positive divisor
			pos := tb.And(tb.FCmp(OpFLt, zero, b), tb.Not(nan(v)))
			add(tb.Implies(tb.And(ge0(a), pos), ge0(v)))
			add(tb.Implies(tb.And(le0(a), pos), le0(v)))
			add(tb.Implies(tb.And(tb.And(ge0(a), le(one, b)), tb.Not(nan(v))), le(v, a)))
			add(tb.Implies(tb.And(ge0(a), tb.And(pos, le(b, one))), le(a, v)))
			add(tb.Implies(tb.FCmp(OpFEq, b, one), tb.Or(tb.FCmp(OpFEq, v, a), nan(a))))
		}
	}
	// pairwise monotonicity of products of non-negative factors
	for i, e1 := range entries {
		for j, e2 := range entries {
			if i == j || e1.op != e2.op || e1.v.Sort.W != w || e2.v.Sort.W != w {
				continue
			}
			if e1.op == OpFMul {
				// 0 <= a1 <= a2 and 0 <= b1 <= b2  =>  a1*b1 <= a2*b2   (both orders of the operands)
				for _, p := range [][4]*Term{{e1.a, e1.b, e2.a, e2.b}, {e1.a, e1.b, e2.b, e2.a}} {
					pre := tb.And(tb.And(ge0(p[0]), le(p[0], p[2])), tb.And(ge0(p[1]), le(p[1], p[3])))
					add(tb.Implies(tb.And(pre, tb.And(tb.Not(nan(e1.v)), tb.Not(nan(e2.v)))), le(e1.v, e2.v)))
				}
			} else if e1.b == e2.b {
				// same positive divisor: monotone in the dividend
				add(tb.Implies(tb.And(tb.And(tb.FCmp(OpFLt, zero, e1.b), le(e1.a, e2.a)), tb.And(tb.Not(nan(e1.v)), tb.Not(nan(e2.v)))), le(e1.v, e2.v)))
			}
		}
	}
	return out, lemmas, len(entries)
}
