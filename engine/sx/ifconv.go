package sx

import (
	"go/token"
	"go/types"

	"golang.org/x/tools/go/ssa"
)

// pureInstr reports whether i has no side effect on memory or control. Instructions that may
// panic are allowed: inside an if-converted region their panic conditions are recorded as
// obligations guarded by the region's branch condition (see mustNot).
func (in *Interp) pureInstr(fr *Frame, i ssa.Instruction) bool {
	switch x := i.(type) {
	case *ssa.DebugRef:
		return true
	case *ssa.BinOp:
		return scalarOrString(x.X.Type())
	case *ssa.UnOp:
		return x.Op != token.ARROW
	case *ssa.Convert:
		fb, ok1 := x.X.Type().Underlying().(*types.Basic)
		tb, ok2 := x.Type().Underlying().(*types.Basic)
		if !ok1 || !ok2 {
			return false
		}
		num := types.IsInteger | types.IsFloat
		return fb.Info()&num != 0 && tb.Info()&num != 0
	case *ssa.ChangeType, *ssa.ChangeInterface, *ssa.MakeInterface:
		return true
	case *ssa.Extract, *ssa.Field, *ssa.FieldAddr, *ssa.IndexAddr, *ssa.Index, *ssa.Slice:
		return true
	case *ssa.Lookup:
		return true
	case *ssa.TypeAssert:
		return x.CommaOk
	case *ssa.Call:
		if b, ok := x.Call.Value.(*ssa.Builtin); ok {
			switch b.Name() {
			case "len", "cap":
				return true
			case "min", "max":
				return scalarOrString(x.Type()) && !isString(x.Type())
			}
		}
	}
	return false
}

func scalarOrString(t types.Type) bool {
	b, ok := t.Underlying().(*types.Basic)
	return ok && b.Info()&(types.IsBoolean|types.IsNumeric|types.IsString) != 0 && b.Info()&types.IsComplex == 0
}

func numPhis(b *ssa.BasicBlock) int {
	n := 0
	for _, i := range b.Instrs {
		if _, ok := i.(*ssa.Phi); !ok {
			break
		}
		n++
	}
	return n
}

// ifConvert tries to replace a fork on c by ite-merging a small side-effect-free region.
func (in *Interp) ifConvert(th *Thread, fr *Frame, x *ssa.If, c *Term) (ok bool) {
	if in.guard != nil || in.noIfConv {
		return false
	}
	B := fr.block
	T, F := B.Succs[0], B.Succs[1]
	if T == F {
		return false
	}
	var cands []*ssa.BasicBlock
	seen := map[*ssa.BasicBlock]bool{}
	add := func(b *ssa.BasicBlock) {
		if !seen[b] && b != B {
			seen[b] = true
			cands = append(cands, b)
		}
	}
	add(T)
	add(F)
	for d := 0; d < 3; d++ {
		for _, b := range append([]*ssa.BasicBlock{}, cands...) {
			for _, s := range b.Succs {
				add(s)
			}
		}
		if len(cands) > 12 {
			break
		}
	}
	savedObl, savedPC, savedPCL := len(in.obligs), in.pc, len(in.pcList)
	sb, sip, sprev := fr.block, fr.ip, fr.prev
	restore := func() {
		in.obligs, in.pc, in.pcList = in.obligs[:savedObl], savedPC, in.pcList[:savedPCL]
		fr.block, fr.ip, fr.prev = sb, sip, sprev
		in.guard = nil
	}
	defer func() {
		if r := recover(); r != nil {
			switch r.(type) {
			case cannotMerge, ifconvAbort, rtPanicNow:
				restore()
				th.panicking = false
				ok = false
				return
			}
			in.guard = nil
			panic(r)
		}
	}()
	tb := in.tb
	for _, J := range cands {
		budget := 40
		var arrive func(pred, blk *ssa.BasicBlock, depth int, g *Term) ([]Value, bool)
		arrive = func(pred, blk *ssa.BasicBlock, depth int, g *Term) ([]Value, bool) {
			if blk == J {
				idx := -1
				for k, p := range J.Preds {
					if p == pred {
						idx = k
					}
				}
				if idx < 0 {
					return nil, false
				}
				n := numPhis(J)
				vals := make([]Value, n)
				for k := 0; k < n; k++ {
					vals[k] = in.get(fr, J.Instrs[k].(*ssa.Phi).Edges[idx])
				}
				return vals, true
			}
			if depth > 5 {
				return nil, false
			}
			// a join inside the region is only allowed when it defines no values
			if len(blk.Preds) != 1 && len(blk.Instrs) != 1 {
				return nil, false
			}
			last := len(blk.Instrs) - 1
			for k := 0; k < last; k++ {
				budget--
				if budget < 0 || !in.pureInstr(fr, blk.Instrs[k]) {
					return nil, false
				}
			}
			in.guard = g
			for k := 0; k < last; k++ {
				fr.block, fr.ip = blk, k
				in.exec(th, fr, blk.Instrs[k])
			}
			in.guard = nil
			fr.block, fr.ip = sb, sip
			switch t := blk.Instrs[last].(type) {
			case *ssa.Jump:
				return arrive(blk, blk.Succs[0], depth+1, g)
			case *ssa.If:
				c2 := in.get(fr, t.Cond).(*Term)
				vt, ok1 := arrive(blk, blk.Succs[0], depth+1, tb.And(g, c2))
				if !ok1 {
					return nil, false
				}
				vf, ok2 := arrive(blk, blk.Succs[1], depth+1, tb.And(g, tb.Not(c2)))
				if !ok2 {
					return nil, false
				}
				out := make([]Value, len(vt))
				for k := range out {
					out[k] = in.ite(c2, vt[k], vf[k])
				}
				return out, true
			}
			return nil, false
		}
		vt, ok1 := arrive(B, T, 0, c)
		if !ok1 {
			restore()
			continue
		}
		vf, ok2 := arrive(B, F, 0, tb.Not(c))
		if !ok2 {
			restore()
			continue
		}
		n := numPhis(J)
		merged := make([]Value, n)
		for k := 0; k < n; k++ {
			merged[k] = in.ite(c, vt[k], vf[k])
		}
		for k := 0; k < n; k++ {
			in.set(fr, J.Instrs[k].(*ssa.Phi), merged[k])
		}
		fr.prev = B
		fr.block = J
		fr.ip = n
		in.stats.Merges++
		return true
	}
	return false
}
