package sx

import (
	"fmt"
	"go/token"
	"go/types"
	"strings"

	"golang.org/x/tools/go/ssa"
)

type unsupported struct{ msg string }

func (u unsupported) Error() string { return "unsupported: " + u.msg }

// pathEnd terminates the current path.
type pathEnd struct {
	kind string // "assume", "done", "violation", "bound"
	msg  string
}

type fnInfo struct {
	idx   map[ssa.Value]int
	nregs int
	name  string
}

type deferred struct {
	fn   Value // *FuncV, or nil with iface call info resolved already
	args []Value
	pos  token.Pos
}

type Frame struct {
	fn       *ssa.Function
	info     *fnInfo
	regs     []Value
	block    *ssa.BasicBlock
	prev     *ssa.BasicBlock
	ip       int
	defers   []deferred
	retReg   int                // register index in caller for result; -1 none
	onReturn func(res Value)    // engine continuation (callThen)
	visits   map[*ssa.BasicBlock]int
	isDefer  bool  // this frame runs a deferred call
	panicVal *Value // set while this frame is unwinding due to panic
	recovered bool
	runningDefers bool // executing RunDefers instruction (normal)
	result   Value // pending result during RunDefers on return
	native   func(in *Interp, th *Thread, fr *Frame) // native frame body (engine pseudo function)
}

type Thread struct {
	id      int
	frames  []*Frame
	done    bool
	daemon  bool
	granted bool // permission to execute the pending visible op
	parked  *parkInfo
	panicking bool
	panicV    Value
	name    string
}

type Obligation struct {
	PC    *Term // path condition at the point
	Cond  *Term // violating condition (sat(PC && Cond) == violation)
	Label string
	Kind  string // "assert" | "panic"
	Pos   string
	KF    string // known-finding id (optional)
	KFCond *Term
}

type Stats struct {
	Steps   int64
	Allocs  int64
	Paths   int
	Forks   int
	Calls   int64
	Merges  int
}

type Config struct {
	LoopBound int
	Lazy      bool
	PoolReuse bool
	StepBound int64
	Preempt   int
	MaxAlts   int
	Stubs     map[string]string // function name -> harness function name
	Noops     map[string]bool
	Cuts      map[string]bool
	MapOrderAll bool
	Trace     bool
}

type Interp struct {
	holdTimers bool // timers fire only through verifAdvance (verifHoldTimers)
	simulTimers bool // timers with provably equal deadlines fire together (verifSimultaneousTimers)
	prog *ssa.Program
	tb   *TB
	cfg  *Config
	ex   *Explorer
	hpkg *ssa.Package // harness package

	globals  map[*ssa.Global]*Cell
	initStores map[*ssa.Package]map[*ssa.Global]bool
	inited   map[*ssa.Package]int // 0 no, 1 running, 2 done, 3 failed
	initErr  map[*ssa.Package]string
	funcInfo map[*ssa.Function]*fnInfo

	// per path
	pc        *Term
	pcList    []*Term
	prefix    []int
	log       []int
	threads   []*Thread
	cur       *Thread
	preempts  int
	obligs    []Obligation
	trail     []undo
	mapTrail  []mapUndo
	epoch     int
	noTrail   bool
	cellSeq   int
	nondetSeq map[string]int
	nondets   []*Term
	nondetInfo []NondetInfo
	covers    map[string]bool
	observes  []Observe
	side      map[*Cell]interface{} // sync object state keyed by cell
	uniqInit  []uniqEntry
	uniqPath  []uniqEntry
	lazyDirty bool
	now       *Term                 // virtual clock (ns, BV64)
	timers    []*Timer
	steps     int64
	notes     map[string]int
	stats     Stats
	chanSeq   int
	mapSeq    int
	inInit    bool
	tseq      int

	sess       *Session
	sessInt    *Session
	guard      *Term // non-nil while executing an if-converted region
	noIfConv   bool
	facts      *facts
	factHits   int
	qs         SolverStats
	lastModels []Model
	cacheHits  int
	findings   []*Finding
	coverW     map[string]*Finding
	nObl, nDis int
	quiesce    func()
	nSched     int
}

type NondetInfo struct {
	Name string // name#seq
	Kind string // int64, uint8, bool, float64, bytes, string, choice
	Var  *Term  // scalar var (nil for aggregates)
	Len  *Term
	Bytes []*Term
}

type Observe struct {
	Label string
	V     Value
}

func NewInterp(prog *ssa.Program, hpkg *ssa.Package, cfg *Config, ex *Explorer) *Interp {
	in := &Interp{prog: prog, tb: NewTB(), cfg: cfg, ex: ex, hpkg: hpkg,
		globals: map[*ssa.Global]*Cell{}, inited: map[*ssa.Package]int{}, initErr: map[*ssa.Package]string{},
		funcInfo: map[*ssa.Function]*fnInfo{}, notes: map[string]int{}}
	in.pc = in.tb.True
	in.side = map[*Cell]interface{}{}
	in.nondetSeq = map[string]int{}
	in.covers = map[string]bool{}
	in.facts = newFacts()
	return in
}

func (in *Interp) note(s string) { in.notes[s]++ }

func fnName(fn *ssa.Function) string {
	if o := fn.Origin(); o != nil {
		return o.String()
	}
	return fn.String()
}

func (in *Interp) info(fn *ssa.Function) *fnInfo {
	if fi, ok := in.funcInfo[fn]; ok {
		return fi
	}
	fi := &fnInfo{idx: map[ssa.Value]int{}, name: fnName(fn)}
	n := 0
	for _, p := range fn.Params {
		fi.idx[p] = n
		n++
	}
	for _, fv := range fn.FreeVars {
		fi.idx[fv] = n
		n++
	}
	for _, b := range fn.Blocks {
		for _, i := range b.Instrs {
			if v, ok := i.(ssa.Value); ok {
				fi.idx[v] = n
				n++
			}
		}
	}
	fi.nregs = n
	in.funcInfo[fn] = fi
	return fi
}

func (in *Interp) posStr(p token.Pos) string {
	if !p.IsValid() {
		return "?"
	}
	ps := in.prog.Fset.Position(p)
	f := ps.Filename
	if i := strings.Index(f, "/repo/"); i >= 0 {
		f = f[i+6:]
	}
	return fmt.Sprintf("%s:%d", f, ps.Line)
}

func (in *Interp) curPos(th *Thread) string {
	if th == nil {
		th = in.cur
	}
	if th == nil {
		return "?"
	}
	for i := len(th.frames) - 1; i >= 0; i-- {
		fr := th.frames[i]
		if fr.fn == nil || fr.block == nil {
			continue
		}
		for j := fr.ip; j >= 0; j-- {
			if j < len(fr.block.Instrs) {
				if p := fr.block.Instrs[j].Pos(); p.IsValid() {
					return in.posStr(p)
				}
			}
		}
		if p := fr.fn.Pos(); p.IsValid() {
			return in.posStr(p) + "(" + fr.fn.Name() + ")"
		}
	}
	return "?"
}

func (in *Interp) stack(th *Thread) string {
	var sb strings.Builder
	for i := len(th.frames) - 1; i >= 0 && i > len(th.frames)-5; i-- {
		fr := th.frames[i]
		if fr.fn != nil {
			sb.WriteString(fr.fn.Name())
			if fr.block != nil && fr.ip < len(fr.block.Instrs) {
				sb.WriteString("@" + in.posStr(fr.block.Instrs[fr.ip].Pos()))
			}
			sb.WriteString(" <- ")
		}
	}
	return sb.String()
}

// get evaluates an SSA operand in a frame.
func (in *Interp) get(fr *Frame, v ssa.Value) Value {
	switch x := v.(type) {
	case *ssa.Const:
		return in.constVal(x)
	case *ssa.Global:
		return mkPtr(in.tb, in.global(x))
	case *ssa.Function:
		return &FuncV{Fn: x}
	case *ssa.Builtin:
		return &FuncV{Builtin: x}
	}
	i, ok := fr.info.idx[v]
	if !ok {
		panic(fmt.Sprintf("internal: no register for %s in %s", v.Name(), fr.fn))
	}
	r := fr.regs[i]
	if p, ok := r.(Poison); ok {
		panic(unsupported{"use of value from failed initialiser: " + p.why})
	}
	if r == nil {
		panic(fmt.Sprintf("internal: unset register %s (%T) in %s", v.Name(), v, fr.fn))
	}
	return r
}

func (in *Interp) set(fr *Frame, v ssa.Value, val Value) {
	fr.regs[fr.info.idx[v]] = val
}

func (in *Interp) constVal(c *ssa.Const) Value {
	t := c.Type()
	if c.Value == nil {
		return in.zero(t)
	}
	if tp, ok := t.(*types.TypeParam); ok {
		_ = tp
		panic(unsupported{"const of type param"})
	}
	b, ok := t.Underlying().(*types.Basic)
	if !ok {
		return in.zero(t)
	}
	switch {
	case b.Info()&types.IsBoolean != 0:
		return in.tb.Bool(constantBool(c))
	case b.Info()&types.IsString != 0:
		return concString(constantString(c))
	case b.Info()&types.IsInteger != 0:
		s, _ := sortOfBasic(b, nil)
		return in.tb.Const(s.W, constantUint(c))
	case b.Info()&types.IsFloat != 0:
		s, _ := sortOfBasic(b, nil)
		return in.tb.FConst(s.W, c.Float64())
	case b.Info()&types.IsComplex != 0:
		cc := c.Complex128()
		return ComplexV{real(cc), imag(cc)}
	}
	panic(unsupported{"const " + c.String()})
}

// global returns the cell of a global, running its package initialiser on first touch.
func (in *Interp) global(g *ssa.Global) *Cell {
	if c, ok := in.globals[g]; ok {
		return c
	}
	in.ensureInit(g.Pkg)
	if c, ok := in.globals[g]; ok {
		return c
	}
	if in.inited[g.Pkg] == 3 && !in.inInit {
		if in.initWrites(g) {
			panic(unsupported{"global " + g.String() + " is set by a package initialiser that is not executed (package outside the encodable set)"})
		}
		in.note("global of uninitialised package (zero-initialised in source): " + g.String())
	}
	return in.mkGlobal(g)
}

// initWrites reports whether the package initialiser of g's package stores into g (directly or
// through a field/element address).
func (in *Interp) initWrites(g *ssa.Global) bool {
	if in.initStores == nil {
		in.initStores = map[*ssa.Package]map[*ssa.Global]bool{}
	}
	m, ok := in.initStores[g.Pkg]
	if !ok {
		m = map[*ssa.Global]bool{}
		if f := g.Pkg.Func("init"); f != nil {
			var root func(v ssa.Value) *ssa.Global
			root = func(v ssa.Value) *ssa.Global {
				switch x := v.(type) {
				case *ssa.Global:
					return x
				case *ssa.FieldAddr:
					return root(x.X)
				case *ssa.IndexAddr:
					return root(x.X)
				}
				return nil
			}
			for _, b := range f.Blocks {
				for _, ins := range b.Instrs {
					if st, ok := ins.(*ssa.Store); ok {
						if gg := root(st.Addr); gg != nil {
							m[gg] = true
						}
					}
				}
			}
		}
		in.initStores[g.Pkg] = m
	}
	return m[g]
}

func (in *Interp) mkGlobal(g *ssa.Global) *Cell {
	ep := in.epoch
	in.epoch = 0
	c := in.newCell(g.Type().(*types.Pointer).Elem())
	c.Label = g.String()
	in.epoch = ep
	in.globals[g] = c
	return c
}

// ---- frames and calls ----

func (in *Interp) pushFrame(th *Thread, fn *ssa.Function, args []Value, bindings []Value, retReg int) *Frame {
	if len(fn.Blocks) == 0 {
		panic(unsupported{"call of function without body: " + fn.String()})
	}
	if len(th.frames) > 400 {
		panic(unsupported{"call depth > 400 at " + fn.String()})
	}
	fi := in.info(fn)
	fr := &Frame{fn: fn, info: fi, regs: make([]Value, fi.nregs), block: fn.Blocks[0], retReg: retReg}
	if len(args) != len(fn.Params) {
		panic(fmt.Sprintf("internal: %s: %d args for %d params", fn, len(args), len(fn.Params)))
	}
	copy(fr.regs, args)
	copy(fr.regs[len(args):], bindings)
	th.frames = append(th.frames, fr)
	in.stats.Calls++
	return fr
}

// callValue invokes a function value with args; result goes to retReg of the current top frame
// (or to onReturn).
func (in *Interp) callValue(th *Thread, f Value, args []Value, retReg int, onReturn func(Value), pos token.Pos) {
	fv, ok := f.(*FuncV)
	if !ok || fv == nil {
		in.goPanic(th, "nil func call", "invalid memory address or nil pointer dereference (nil func)")
		return
	}
	caller := th.top()
	deliver := func(res Value) {
		if onReturn != nil {
			onReturn(res)
		} else if retReg >= 0 {
			caller.regs[retReg] = res
		}
	}
	if fv.Builtin != nil {
		deliver(in.callBuiltin(th, fv.Builtin.Name(), args, nil))
		return
	}
	if fv.Native != "" {
		panic(unsupported{"native func value " + fv.Native})
	}
	fn := fv.Fn
	name := fnName(fn)
	if in.cfg.Noops[name] {
		in.note("noop:" + name)
		deliver(in.zeroResults(fn))
		return
	}
	if in.cfg.Cuts[name] {
		in.note("cut:" + name)
		panic(pathEnd{"done", "cut at " + name})
	}
	if fn.Synthetic != "" && fn.Pkg != nil && fn.Name() == "init" && strings.Contains(fn.Synthetic, "package init") {
		if in.inited[fn.Pkg] != 0 || in.initDenied(fn.Pkg) {
			if in.inited[fn.Pkg] == 0 {
				in.inited[fn.Pkg] = 3
			}
			deliver(nil)
			return
		}
		in.inited[fn.Pkg] = 2
	}
	if sname, ok := in.cfg.Stubs[name]; ok {
		sf := in.hpkg.Func(sname)
		if sf == nil {
			panic(unsupported{"stub function not found: " + sname})
		}
		in.note("stub:" + name + "=>" + sname)
		fn = sf
		name = sname
	}
	if h, ok := intrinsics[name]; ok {
		res, handled := h(in, th, fn, args, deliver)
		if handled {
			if res != asyncResult {
				deliver(res)
			}
			return
		}
	}
	if mname, ok := modelRedirect[name]; ok {
		if mf := in.hpkg.Func(mname); mf != nil {
			in.note("model:" + name)
			fn = mf
			name = mname
		}
	}
	if strings.HasPrefix(fn.Name(), "verif") && fn.Pkg == in.hpkg {
		if h, ok := verifIntrinsics[fn.Name()]; ok {
			res := h(in, th, fn, args)
			if res != asyncResult {
				deliver(res)
			}
			return
		}
	}
	if len(fn.Blocks) == 0 {
		panic(unsupported{"no body and no intrinsic: " + name})
	}
	fr := in.pushFrame(th, fn, args, fv.Bindings, retReg)
	fr.onReturn = onReturn
}

var asyncResultV = &struct{ x int }{1}
var asyncResult Value = asyncResultV

func (in *Interp) zeroResults(fn *ssa.Function) Value {
	res := fn.Signature.Results()
	switch res.Len() {
	case 0:
		return nil
	case 1:
		return in.zero(res.At(0).Type())
	}
	return in.zero(res)
}

func (th *Thread) top() *Frame {
	if len(th.frames) == 0 {
		return nil
	}
	return th.frames[len(th.frames)-1]
}

// callThen pushes fn(args) and runs k with the result when it returns.
func (in *Interp) callThen(th *Thread, f Value, args []Value, k func(Value)) {
	in.callValue(th, f, args, -1, k, token.NoPos)
}

// doReturn pops the top frame delivering res.
func (in *Interp) doReturn(th *Thread, res Value) {
	fr := th.top()
	th.frames = th.frames[:len(th.frames)-1]
	if fr.onReturn != nil {
		fr.onReturn(res)
		return
	}
	if caller := th.top(); caller != nil && fr.retReg >= 0 {
		caller.regs[fr.retReg] = res
	}
}

// ---- panics ----

// goPanic raises a Go-level run-time panic with a string message.
func (in *Interp) goPanic(th *Thread, kind, msg string) {
	in.raise(th, IfaceV{T: in.runtimeErrorType(), V: concString("runtime error: " + msg)})
}

func (in *Interp) runtimeErrorType() types.Type {
	// represent runtime errors as a named string-like type implementing error is hard to fabricate;
	// use plain string type (recover() users in grpc only print it).
	return types.Typ[types.String]
}

func (in *Interp) raise(th *Thread, v Value) {
	if in.guard != nil {
		panic(ifconvAbort{})
	}
	if in.inInit {
		panic(unsupported{"panic during package initialisation: " + in.describe(v)})
	}
	th.panicking = true
	th.panicV = v
}

// unwind processes one step of panic unwinding; returns false when the thread died.
func (in *Interp) unwindStep(th *Thread) {
	fr := th.top()
	if fr == nil {
		// uncaught panic
		th.panicking = false
		th.done = true
		in.uncaughtPanic(th)
		return
	}
	if len(fr.defers) > 0 {
		d := fr.defers[len(fr.defers)-1]
		fr.defers = fr.defers[:len(fr.defers)-1]
		pv := th.panicV
		fr.panicVal = &pv
		th.panicking = false // deferred function runs normally; resumed in afterDefer
		in.callValue(th, d.fn, d.args, -1, func(Value) {
			if fr.recovered {
				fr.recovered = false
				fr.panicVal = nil
				// run the remaining defers normally then return via Recover block
				in.finishRecovered(th, fr)
				return
			}
			if !th.panicking { // no new panic replaced it
				th.panicking = true
				th.panicV = *fr.panicVal
			}
			fr.panicVal = nil
		}, d.pos)
		if nf := th.top(); nf != fr {
			nf.isDefer = true
		}
		return
	}
	// no defers: pop frame
	th.frames = th.frames[:len(th.frames)-1]
	if fr.onReturn != nil {
		// engine continuation cannot handle panics: propagate
	}
}

// finishRecovered: after recover(), run remaining defers and return through the Recover block.
func (in *Interp) finishRecovered(th *Thread, fr *Frame) {
	if len(fr.defers) > 0 {
		d := fr.defers[len(fr.defers)-1]
		fr.defers = fr.defers[:len(fr.defers)-1]
		in.callValue(th, d.fn, d.args, -1, func(Value) { in.finishRecovered(th, fr) }, d.pos)
		return
	}
	if fr.fn.Recover != nil {
		fr.prev = fr.block
		fr.block = fr.fn.Recover
		fr.ip = 0
		return
	}
	// return zero values
	if th.top() != fr {
		panic("internal: finishRecovered frame mismatch")
	}
	in.doReturn(th, in.zeroResults(fr.fn))
}

func (in *Interp) uncaughtPanic(th *Thread) {
	msg := in.describe(th.panicV)
	panic(pathEnd{"panic", msg})
}

func (in *Interp) describe(v Value) string {
	switch x := v.(type) {
	case IfaceV:
		if x.T == nil {
			return "nil"
		}
		return fmt.Sprintf("%s(%s)", types.TypeString(x.T, nil), in.describe(x.V))
	case *StrV:
		if x.Conc {
			return x.S
		}
		return "<symbolic string>"
	case *Term:
		if x.IsConst() {
			return fmt.Sprint(x.Val)
		}
		return "<sym>"
	case Ptr:
		if c, ok := x.single(); ok && c != nil {
			if c.Kids != nil && len(c.Kids) > 0 {
				return "&{" + in.describe(in.loadCell(c.Kids[0])) + "...}"
			}
			return "&" + in.describe(in.loadCell(c))
		}
		return "<ptr>"
	case *StructV:
		if len(x.F) > 0 {
			return "{" + in.describe(x.F[0]) + "...}"
		}
	}
	return fmt.Sprintf("<%T>", v)
}

// ---- stepping ----

type status int

const (
	stRun status = iota
	stYield  // at a visible op; needs scheduling
	stDone   // thread finished
)

// step executes one instruction of th. Returns stYield if the thread must stop at a visible op.
func (in *Interp) step(th *Thread) status {
	if th.panicking {
		in.unwindStep(th)
		if th.done {
			return stDone
		}
		return stRun
	}
	fr := th.top()
	if fr == nil {
		th.done = true
		return stDone
	}
	if fr.native != nil {
		fr.native(in, th, fr)
		return stRun
	}
	if fr.ip >= len(fr.block.Instrs) {
		panic(fmt.Sprintf("internal: ip past block end in %s", fr.fn))
	}
	instr := fr.block.Instrs[fr.ip]
	in.steps++
	in.stats.Steps++
	if in.steps > in.cfg.StepBound {
		panic(pathEnd{"bound", fmt.Sprintf("step bound %d exceeded at %s", in.cfg.StepBound, in.curPos(th))})
	}
	if in.cfg.Trace {
		fmt.Printf("T%d %s\t%s\n", th.id, fr.fn.Name(), instrString(instr))
	}
	in.exec(th, fr, instr)
	if th.parked != nil {
		return stYield
	}
	if len(th.frames) == 0 && !th.panicking {
		th.done = true
		return stDone
	}
	return stRun
}

func instrString(i ssa.Instruction) string {
	if v, ok := i.(ssa.Value); ok {
		return v.Name() + " = " + i.String()
	}
	return i.String()
}

// jump transfers control within a frame.
func (in *Interp) jump(fr *Frame, to *ssa.BasicBlock) {
	fr.prev = fr.block
	fr.block = to
	fr.ip = 0
}

func (in *Interp) exec(th *Thread, fr *Frame, instr ssa.Instruction) {
	tb := in.tb
	switch x := instr.(type) {
	case *ssa.DebugRef:
		fr.ip++
	case *ssa.Alloc:
		c := in.newCell(x.Type().(*types.Pointer).Elem())
		in.set(fr, x, mkPtr(tb, c))
		fr.ip++
	case *ssa.BinOp:
		in.set(fr, x, in.binop(th, x.Op, x.X.Type(), in.get(fr, x.X), in.get(fr, x.Y), x.Y.Type()))
		fr.ip++
	case *ssa.UnOp:
		if x.Op == token.ARROW {
			in.execRecv(th, fr, x)
			return
		}
		in.set(fr, x, in.unop(th, x, in.get(fr, x.X)))
		fr.ip++
	case *ssa.Phi:
		// evaluate all phis of the block simultaneously
		var vals []Value
		var phis []*ssa.Phi
		for i := fr.ip; i < len(fr.block.Instrs); i++ {
			p, ok := fr.block.Instrs[i].(*ssa.Phi)
			if !ok {
				break
			}
			idx := -1
			for k, pred := range fr.block.Preds {
				if pred == fr.prev {
					idx = k
					break
				}
			}
			if idx < 0 {
				panic("internal: phi without matching predecessor in " + fr.fn.String())
			}
			vals = append(vals, in.get(fr, p.Edges[idx]))
			phis = append(phis, p)
		}
		for i, p := range phis {
			in.set(fr, p, vals[i])
		}
		fr.ip += len(phis)
	case *ssa.If:
		c := in.get(fr, x.Cond).(*Term)
		var taken bool
		if c.IsConst() {
			taken = c.Val == 1
		} else {
			if in.tryIfConvert(th, fr, x, c) {
				return
			}
			in.countVisit(th, fr)
			taken = in.decide(c)
		}
		if taken {
			in.jump(fr, fr.block.Succs[0])
		} else {
			in.jump(fr, fr.block.Succs[1])
		}
	case *ssa.Jump:
		in.jump(fr, fr.block.Succs[0])
	case *ssa.Return:
		var res Value
		switch len(x.Results) {
		case 0:
		case 1:
			res = in.get(fr, x.Results[0])
		default:
			tv := make(TupleV, len(x.Results))
			for i, r := range x.Results {
				tv[i] = in.get(fr, r)
			}
			res = tv
		}
		in.doReturn(th, res)
	case *ssa.RunDefers:
		if len(fr.defers) > 0 {
			d := fr.defers[len(fr.defers)-1]
			fr.defers = fr.defers[:len(fr.defers)-1]
			// re-execute RunDefers after the deferred call returns (ip not advanced)
			in.callValue(th, d.fn, d.args, -1, func(Value) {}, d.pos)
			if nf := th.top(); nf != fr {
				nf.isDefer = true
			}
			return
		}
		fr.ip++
	case *ssa.Panic:
		fr.ip++
		in.raise(th, in.get(fr, x.X))
	case *ssa.Call:
		fr.ip++
		in.execCall(th, fr, &x.Call, fr.info.idx[x], x.Pos())
	case *ssa.Defer:
		fr.ip++
		f, args := in.resolveCall(th, fr, &x.Call)
		if f != nil {
			fr.defers = append(fr.defers, deferred{f, args, x.Pos()})
		}
	case *ssa.Go:
		fr.ip++
		f, args := in.resolveCall(th, fr, &x.Call)
		if f != nil {
			in.spawn(f, args, false)
		}
	case *ssa.MakeClosure:
		b := make([]Value, len(x.Bindings))
		for i, bv := range x.Bindings {
			b[i] = in.get(fr, bv)
		}
		in.set(fr, x, &FuncV{Fn: x.Fn.(*ssa.Function), Bindings: b})
		fr.ip++
	case *ssa.Store:
		in.store(th, in.get(fr, x.Addr), in.get(fr, x.Val))
		fr.ip++
	case *ssa.FieldAddr:
		p := in.get(fr, x.X).(Ptr)
		in.set(fr, x, in.fieldAddr(th, p, x.Field))
		fr.ip++
	case *ssa.Field:
		in.set(fr, x, in.get(fr, x.X).(*StructV).F[x.Field])
		fr.ip++
	case *ssa.IndexAddr:
		in.set(fr, x, in.indexAddr(th, in.get(fr, x.X), in.get(fr, x.Index).(*Term), x.Index.Type(), x.X.Type()))
		fr.ip++
	case *ssa.Index:
		in.set(fr, x, in.index(th, in.get(fr, x.X), in.get(fr, x.Index).(*Term), x.Index.Type()))
		fr.ip++
	case *ssa.Extract:
		in.set(fr, x, in.get(fr, x.Tuple).(TupleV)[x.Index])
		fr.ip++
	case *ssa.Convert:
		in.set(fr, x, in.convert(th, in.get(fr, x.X), x.X.Type(), x.Type()))
		fr.ip++
	case *ssa.ChangeType:
		in.set(fr, x, in.get(fr, x.X))
		fr.ip++
	case *ssa.MultiConvert:
		in.set(fr, x, in.convert(th, in.get(fr, x.X), x.X.Type(), x.Type()))
		fr.ip++
	case *ssa.ChangeInterface:
		in.set(fr, x, in.get(fr, x.X))
		fr.ip++
	case *ssa.MakeInterface:
		in.set(fr, x, IfaceV{T: x.X.Type(), V: in.get(fr, x.X)})
		fr.ip++
	case *ssa.TypeAssert:
		in.set(fr, x, in.typeAssert(th, x, in.get(fr, x.X).(IfaceV)))
		fr.ip++
	case *ssa.MakeSlice:
		in.set(fr, x, in.makeSlice(th, x.Type(), in.get(fr, x.Len).(*Term), in.get(fr, x.Cap).(*Term), x.Len.Type(), x.Cap.Type()))
		fr.ip++
	case *ssa.Slice:
		var lo, hi, max *Term
		if x.Low != nil {
			lo = in.toInt64(in.get(fr, x.Low).(*Term), x.Low.Type())
		}
		if x.High != nil {
			hi = in.toInt64(in.get(fr, x.High).(*Term), x.High.Type())
		}
		if x.Max != nil {
			max = in.toInt64(in.get(fr, x.Max).(*Term), x.Max.Type())
		}
		in.set(fr, x, in.sliceOp(th, in.get(fr, x.X), x.X.Type(), lo, hi, max))
		fr.ip++
	case *ssa.SliceToArrayPointer:
		s := in.get(fr, x.X).(SliceV)
		n := x.Type().(*types.Pointer).Elem().Underlying().(*types.Array).Len()
		in.set(fr, x, in.sliceToArrayPtr(th, s, int(n)))
		fr.ip++
	case *ssa.MakeMap:
		mt := x.Type().Underlying().(*types.Map)
		in.set(fr, x, in.newMap(mt))
		fr.ip++
	case *ssa.MapUpdate:
		in.mapUpdate(th, in.get(fr, x.Map).(*MapObj), in.get(fr, x.Key), in.get(fr, x.Value))
		fr.ip++
	case *ssa.Lookup:
		in.set(fr, x, in.lookup(th, x, in.get(fr, x.X), in.get(fr, x.Index)))
		fr.ip++
	case *ssa.Range:
		in.set(fr, x, in.mkRange(th, in.get(fr, x.X)))
		fr.ip++
	case *ssa.Next:
		in.execNext(th, fr, x)
	case *ssa.MakeChan:
		sz := in.get(fr, x.Size).(*Term)
		if !sz.IsConst() {
			panic(unsupported{"symbolic channel size"})
		}
		in.set(fr, x, in.newChan(int(sz.Val), x.Type().Underlying().(*types.Chan).Elem()))
		fr.ip++
	case *ssa.Send:
		in.execSend(th, fr, x)
	case *ssa.Select:
		in.execSelect(th, fr, x)
	default:
		panic(unsupported{fmt.Sprintf("instruction %T", instr)})
	}
}

func (in *Interp) countVisit(th *Thread, fr *Frame) {
	if fr.visits == nil {
		fr.visits = map[*ssa.BasicBlock]int{}
	}
	fr.visits[fr.block]++
	if fr.visits[fr.block] > in.cfg.LoopBound {
		panic(pathEnd{"bound", fmt.Sprintf("unwinding bound %d hit at %s", in.cfg.LoopBound, in.curPos(th))})
	}
}

// resolveCall evaluates the callee and arguments of a call.
func (in *Interp) resolveCall(th *Thread, fr *Frame, c *ssa.CallCommon) (Value, []Value) {
	var args []Value
	var f Value
	if c.IsInvoke() {
		recv := in.get(fr, c.Value).(IfaceV)
		if recv.T == nil {
			in.goPanic(th, "nilderef", "invalid memory address or nil pointer dereference (method call on nil interface "+c.Method.Name()+")")
			return nil, nil
		}
		m := in.lookupMethod(recv.T, c.Method)
		f = &FuncV{Fn: m}
		args = append(args, recv.V)
	} else {
		f = in.get(fr, c.Value)
	}
	for _, a := range c.Args {
		args = append(args, in.get(fr, a))
	}
	return f, args
}

func (in *Interp) lookupMethod(t types.Type, m *types.Func) *ssa.Function {
	ms := in.prog.MethodSets.MethodSet(t)
	sel := ms.Lookup(m.Pkg(), m.Name())
	if sel == nil {
		panic(unsupported{fmt.Sprintf("method %s not found on %s", m.Name(), t)})
	}
	fn := in.prog.MethodValue(sel)
	if fn == nil {
		panic(unsupported{fmt.Sprintf("no method value for %s.%s", t, m.Name())})
	}
	return fn
}

func (in *Interp) execCall(th *Thread, fr *Frame, c *ssa.CallCommon, retReg int, pos token.Pos) {
	if b, ok := c.Value.(*ssa.Builtin); ok && !c.IsInvoke() {
		args := make([]Value, len(c.Args))
		for i, a := range c.Args {
			args[i] = in.get(fr, a)
		}
		fr.regs[retReg] = in.callBuiltin(th, b.Name(), args, c)
		return
	}
	f, args := in.resolveCall(th, fr, c)
	if f == nil {
		return
	}
	in.callValue(th, f, args, retReg, nil, pos)
}
