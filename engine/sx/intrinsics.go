package sx

import (
	"fmt"
	"go/types"
	"math"
	"strconv"
	"strings"

	"golang.org/x/tools/go/ssa"
)

type intrinsic func(in *Interp, th *Thread, fn *ssa.Function, args []Value, deliver func(Value)) (Value, bool)
type verifIntrinsic func(in *Interp, th *Thread, fn *ssa.Function, args []Value) Value

var intrinsics map[string]intrinsic
var verifIntrinsics map[string]verifIntrinsic

// modelRedirect maps std functions to model functions defined in the harness prelude.
var modelRedirect = map[string]string{
	"errors.Is":                           "verifModel_errorsIs",
	"errors.As":                           "verifModel_errorsAs",
	"internal/bytealg.IndexByteString":    "verifModel_indexByteString",
	"internal/bytealg.IndexByte":          "verifModel_indexByte",
	"internal/bytealg.CountString":        "verifModel_countString",
	"internal/bytealg.Count":              "verifModel_count",
	"internal/bytealg.Equal":              "verifModel_bytesEqual",
	"internal/bytealg.Compare":            "verifModel_bytesCompare",
	"internal/bytealg.IndexString":        "verifModel_indexString",
	"internal/bytealg.Index":              "verifModel_index",
	"internal/bytealg.LastIndexByteString": "verifModel_lastIndexByteString",
	"internal/bytealg.LastIndexByte":      "verifModel_lastIndexByte",
	"internal/stringslite.Index":          "verifModel_indexString",
	"internal/stringslite.IndexByte":      "verifModel_indexByteString",
	"strings.Index":                       "verifModel_indexString",
	"strings.Contains":                    "verifModel_containsString",
}

func strArg(v Value) (string, bool) {
	s, ok := v.(*StrV)
	if !ok || !s.Conc {
		return "", false
	}
	return s.S, true
}

func (in *Interp) mustStr(v Value, what string) string {
	s, ok := strArg(v)
	if !ok {
		panic(unsupported{what + ": need concrete string"})
	}
	return s
}

func (in *Interp) newNondetScalar(name, kind string, s Sort) *Term {
	seq := in.nondetSeq[name]
	in.nondetSeq[name] = seq + 1
	full := fmt.Sprintf("%s#%d", name, seq)
	v := in.tb.Var("nd_"+full+"_"+strconv.Itoa(s.W), s)
	in.nondets = append(in.nondets, v)
	in.nondetInfo = append(in.nondetInfo, NondetInfo{Name: full, Kind: kind, Var: v})
	return v
}

func (in *Interp) nondetBytes(name, kind string, max int) ([]*Term, *Term) {
	seq := in.nondetSeq[name]
	in.nondetSeq[name] = seq + 1
	full := fmt.Sprintf("%s#%d", name, seq)
	n := in.tb.Var("nd_"+full+".len", BV(64))
	in.nondets = append(in.nondets, n)
	bs := make([]*Term, max)
	for i := range bs {
		bs[i] = in.tb.Var(fmt.Sprintf("nd_%s[%d]", full, i), BV(8))
		in.nondets = append(in.nondets, bs[i])
	}
	in.addPC(in.tb.BvCmp(OpULe, n, in.c64(uint64(max))))
	in.nondetInfo = append(in.nondetInfo, NondetInfo{Name: full, Kind: kind, Len: n, Bytes: bs})
	return bs, n
}

func (in *Interp) assume(c *Term) {
	if c.IsTrue() {
		return
	}
	if c.IsFalse() || !in.feasible(c) {
		panic(pathEnd{"assume", "assumption infeasible"})
	}
	in.addPC(c)
}

func init() {
	verifIntrinsics = map[string]verifIntrinsic{}
	scalar := func(kind string) verifIntrinsic {
		return func(in *Interp, th *Thread, fn *ssa.Function, args []Value) Value {
			name := in.mustStr(args[0], "nondet name")
			rt := fn.Signature.Results().At(0).Type()
			s, _ := sortOfBasic(rt.Underlying().(*types.Basic), nil)
			if s.K == SFP {
				v := in.newNondetScalar(name, kind, BV(s.W))
				return in.tb.BitsToF(s.W, v)
			}
			if s.K == SBool {
				v := in.newNondetScalar(name, kind, BoolSort)
				return v
			}
			return in.newNondetScalar(name, kind, s)
		}
	}
	for _, k := range []string{"Int64", "Int32", "Int16", "Int8", "Int", "Uint64", "Uint32", "Uint16", "Uint8", "Uint", "Bool", "Float64", "Float32"} {
		verifIntrinsics["verif"+k] = scalar(strings.ToLower(k))
	}
	verifIntrinsics["verifBytes"] = func(in *Interp, th *Thread, fn *ssa.Function, args []Value) Value {
		name := in.mustStr(args[0], "nondet name")
		max := int(args[1].(*Term).Val)
		bs, n := in.nondetBytes(name, "bytes", max)
		et := fn.Signature.Results().At(0).Type().Underlying().(*types.Slice).Elem()
		arr := in.newArrayCell(et, max)
		for i, b := range bs {
			in.storeCell(in.kid(arr, i), b)
		}
		return SliceV{arr, in.c64(0), n, in.c64(uint64(max))}
	}
	verifIntrinsics["verifString"] = func(in *Interp, th *Thread, fn *ssa.Function, args []Value) Value {
		name := in.mustStr(args[0], "nondet name")
		max := int(args[1].(*Term).Val)
		bs, n := in.nondetBytes(name, "string", max)
		return &StrV{B: bs, N: n}
	}
	verifIntrinsics["verifChoice"] = func(in *Interp, th *Thread, fn *ssa.Function, args []Value) Value {
		name := in.mustStr(args[0], "nondet name")
		nT := args[1].(*Term)
		if !nT.IsConst() {
			panic(unsupported{"verifChoice with symbolic n"})
		}
		k := in.choose(int(nT.Val), "choice:"+name)
		seq := in.nondetSeq[name]
		in.nondetSeq[name] = seq + 1
		in.nondetInfo = append(in.nondetInfo, NondetInfo{Name: fmt.Sprintf("%s#%d", name, seq), Kind: "choice", Len: in.c64(uint64(k))})
		return in.c64(uint64(k))
	}
	verifIntrinsics["verifAssume"] = func(in *Interp, th *Thread, fn *ssa.Function, args []Value) Value {
		in.assume(args[0].(*Term))
		return nil
	}
	verifIntrinsics["verifAssert"] = func(in *Interp, th *Thread, fn *ssa.Function, args []Value) Value {
		c := args[0].(*Term)
		label := in.mustStr(args[1], "assert label")
		if c.IsTrue() {
			in.nObl++
			in.nDis++
			return nil
		}
		in.obligs = append(in.obligs, Obligation{PC: in.pc, Cond: in.tb.Not(c), Label: label, Kind: "assert", Pos: in.callerPos(th)})
		if c.IsFalse() {
			// definite failure on a feasible path: stop here
			panic(pathEnd{"done", "assertion definitely failed: " + label})
		}
		in.addPC(c)
		return nil
	}
	verifIntrinsics["verifAssertKF"] = func(in *Interp, th *Thread, fn *ssa.Function, args []Value) Value {
		c := args[0].(*Term)
		label := in.mustStr(args[1], "assert label")
		kf := in.mustStr(args[2], "known finding id")
		kc := args[3].(*Term)
		if c.IsTrue() {
			in.nObl++
			in.nDis++
			return nil
		}
		in.obligs = append(in.obligs, Obligation{PC: in.pc, Cond: in.tb.Not(c), Label: label, Kind: "assert", Pos: in.callerPos(th), KF: kf, KFCond: kc})
		if c.IsFalse() {
			panic(pathEnd{"done", "assertion definitely failed: " + label})
		}
		in.addPC(c)
		return nil
	}
	verifIntrinsics["verifCover"] = func(in *Interp, th *Thread, fn *ssa.Function, args []Value) Value {
		label := in.mustStr(args[0], "cover label")
		if in.ex.coverSeen(label) {
			return nil
		}
		r, m := in.query([]*Term{in.pc}, in.nondets)
		if r == Sat {
			f := &Finding{Harness: in.ex.Fn.Name(), Kind: "cover", Label: label, Model: m, Nondets: in.nondetValues(m), Path: append([]int{}, in.log...)}
			for _, o := range in.observes {
				f.Detail += in.evalObserve(o, m)
			}
			in.coverW[label] = f
			in.ex.markCover(label)
		}
		return nil
	}
	verifIntrinsics["verifObserveInt"] = func(in *Interp, th *Thread, fn *ssa.Function, args []Value) Value {
		label := in.mustStr(args[0], "observe label")
		in.observes = append(in.observes, Observe{label, args[1]})
		return nil
	}
	verifIntrinsics["verifObserveStr"] = verifIntrinsics["verifObserveInt"]
	verifIntrinsics["verifComparable"] = func(in *Interp, th *Thread, fn *ssa.Function, args []Value) Value {
		iv := args[0].(IfaceV)
		return in.tb.Bool(iv.T == nil || types.Comparable(iv.T))
	}
	verifIntrinsics["verifAsAssign"] = func(in *Interp, th *Thread, fn *ssa.Function, args []Value) Value {
		err := args[0].(IfaceV)
		tgt := args[1].(IfaceV)
		pt, ok := tgt.T.(*types.Pointer)
		if !ok || err.T == nil {
			return in.tb.False
		}
		et := pt.Elem()
		if types.IsInterface(et) {
			if types.Implements(err.T, et.Underlying().(*types.Interface)) {
				in.store(th, tgt.V, err)
				return in.tb.True
			}
			return in.tb.False
		}
		if types.Identical(err.T, et) {
			in.store(th, tgt.V, err.V)
			return in.tb.True
		}
		return in.tb.False
	}
	verifIntrinsics["verifSetField"] = func(in *Interp, th *Thread, fn *ssa.Function, args []Value) Value {
		pv := args[0].(IfaceV)
		path := in.mustStr(args[1], "field path")
		c := in.cellOf(pv.V, "verifSetField")
		for _, name := range strings.Split(path, ".") {
			st, ok := c.Typ.Underlying().(*types.Struct)
			if !ok {
				panic(unsupported{"verifSetField: not a struct at " + name})
			}
			found := false
			for i := 0; i < st.NumFields(); i++ {
				if st.Field(i).Name() == name {
					c = c.Kids[i]
					found = true
					break
				}
			}
			if !found {
				panic(unsupported{"verifSetField: no field " + name + " in " + c.Typ.String()})
			}
		}
		v := args[2].(IfaceV)
		if types.IsInterface(c.Typ) {
			in.storeCell(c, v)
		} else if v.T == nil {
			in.storeCell(c, in.zero(c.Typ))
		} else {
			in.storeCell(c, v.V)
		}
		return nil
	}
	verifIntrinsics["verifSameArray"] = func(in *Interp, th *Thread, fn *ssa.Function, args []Value) Value {
		a, b := args[0].(SliceV), args[1].(SliceV)
		return in.tb.Bool(a.Arr != nil && a.Arr == b.Arr)
	}
	verifIntrinsics["verifYield"] = func(in *Interp, th *Thread, fn *ssa.Function, args []Value) Value {
		in.visible(th, &parkInfo{desc: "yield", enabled: func() bool { return true }, fire: func() {}})
		return nil
	}
	verifIntrinsics["verifAdvance"] = func(in *Interp, th *Thread, fn *ssa.Function, args []Value) Value {
		in.advance(args[0].(*Term))
		return nil
	}
	// verifHoldTimers(true): timers no longer fire by themselves at quiescence; they fire only when verifAdvance
	// moves the clock past their deadline (lets a harness decide when a timeout elapses)
	verifIntrinsics["verifHoldTimers"] = func(in *Interp, th *Thread, fn *ssa.Function, args []Value) Value {
		c := args[0].(*Term)
		in.holdTimers = c.IsConst() && c.IsTrue()
		return nil
	}
	// verifSimultaneousTimers(true): timers whose deadlines are provably equal fire together, so the goroutines they wake
	// are runnable at the same time and their interleavings are explored. Off by default: two timers armed one after the
	// other in the same virtual instant have distinct deadlines in reality and fire in creation order.
	verifIntrinsics["verifSimultaneousTimers"] = func(in *Interp, th *Thread, fn *ssa.Function, args []Value) Value {
		c := args[0].(*Term)
		in.simulTimers = c.IsConst() && c.IsTrue()
		return nil
	}
	verifIntrinsics["verifNow"] = func(in *Interp, th *Thread, fn *ssa.Function, args []Value) Value {
		return in.clock()
	}
	verifIntrinsics["verifDaemon"] = func(in *Interp, th *Thread, fn *ssa.Function, args []Value) Value {
		th.daemon = true
		return nil
	}
	verifIntrinsics["verifSymbolic"] = func(in *Interp, th *Thread, fn *ssa.Function, args []Value) Value {
		return in.tb.True
	}
	verifIntrinsics["verifAtQuiescence"] = func(in *Interp, th *Thread, fn *ssa.Function, args []Value) Value {
		f := args[0]
		in.quiesce = func() { in.spawn(f, nil, false) }
		return nil
	}
	verifIntrinsics["verifBlockedThreads"] = func(in *Interp, th *Thread, fn *ssa.Function, args []Value) Value {
		n := 0
		for _, t := range in.threads {
			if t != th && !t.done && t.parked != nil && !t.parked.enabled() {
				n++
			}
		}
		return in.c64(uint64(n))
	}
	verifIntrinsics["verifUF1"] = func(in *Interp, th *Thread, fn *ssa.Function, args []Value) Value {
		name := in.mustStr(args[0], "uf name")
		x := args[1].(*Term)
		return in.tb.UF("uf_"+name, x.Sort, x)
	}
	verifIntrinsics["verifUF2"] = func(in *Interp, th *Thread, fn *ssa.Function, args []Value) Value {
		name := in.mustStr(args[0], "uf name")
		x, y := args[1].(*Term), args[2].(*Term)
		return in.tb.UF("uf_"+name, x.Sort, x, y)
	}

	intrinsics = map[string]intrinsic{}
	registerSync()
	registerMath()
	registerMisc()
	registerUnique()
	registerUnicode()
}

func (in *Interp) callerPos(th *Thread) string {
	return in.curPos(th)
}

func (in *Interp) evalObserve(o Observe, m Model) string {
	switch v := o.V.(type) {
	case *Term:
		if x, ok := Eval(v, m, nil); ok {
			return fmt.Sprintf("%s=%d;", o.Label, sext(x, v.Sort.W))
		}
	case *StrV:
		if v.Conc {
			return fmt.Sprintf("%s=%q;", o.Label, v.S)
		}
		n, _ := Eval(v.N, m, nil)
		var bs []byte
		for i := 0; i < int(n) && i < len(v.B); i++ {
			b, _ := Eval(v.B[i], m, nil)
			bs = append(bs, byte(b))
		}
		return fmt.Sprintf("%s=%q;", o.Label, string(bs))
	}
	return o.Label + "=?;"
}

func (ex *Explorer) coverSeen(l string) bool {
	ex.mu.Lock()
	defer ex.mu.Unlock()
	_, ok := ex.res.Covers[l]
	return ok
}

func (ex *Explorer) markCover(l string) {
	ex.mu.Lock()
	defer ex.mu.Unlock()
	if _, ok := ex.res.Covers[l]; !ok {
		ex.res.Covers[l] = nil
	}
}

// ---- math ----

func registerMath() {
	un := func(f func(in *Interp, x *Term) Value) intrinsic {
		return func(in *Interp, th *Thread, fn *ssa.Function, args []Value, d func(Value)) (Value, bool) {
			return f(in, args[0].(*Term)), true
		}
	}
	intrinsics["math.Floor"] = un(func(in *Interp, x *Term) Value { return in.tb.FUn(OpFRTI, x, 3) })
	intrinsics["math.Ceil"] = un(func(in *Interp, x *Term) Value { return in.tb.FUn(OpFRTI, x, 2) })
	intrinsics["math.Trunc"] = un(func(in *Interp, x *Term) Value { return in.tb.FUn(OpFRTI, x, 1) })
	intrinsics["math.Round"] = un(func(in *Interp, x *Term) Value { return in.tb.FUn(OpFRTI, x, 4) })
	intrinsics["math.RoundToEven"] = un(func(in *Interp, x *Term) Value { return in.tb.FUn(OpFRTI, x, 0) })
	intrinsics["math.Sqrt"] = un(func(in *Interp, x *Term) Value { return in.tb.FUn(OpFSqrt, x, 0) })
	intrinsics["math.Abs"] = un(func(in *Interp, x *Term) Value { return in.tb.FUn(OpFAbs, x, 0) })
	intrinsics["math.IsNaN"] = un(func(in *Interp, x *Term) Value { return in.tb.FUn(OpFIsNaN, x, 0) })
	intrinsics["math.Float64frombits"] = un(func(in *Interp, x *Term) Value { return in.tb.BitsToF(64, x) })
	intrinsics["math.Float32frombits"] = un(func(in *Interp, x *Term) Value { return in.tb.BitsToF(32, x) })
	intrinsics["math.Float64bits"] = un(func(in *Interp, x *Term) Value {
		if x.IsConst() {
			return in.c64(x.Val)
		}
		if x.Op == OpBitsToF {
			return x.Args[0]
		}
		panic(unsupported{"math.Float64bits of symbolic float"})
	})
	intrinsics["math.Float32bits"] = un(func(in *Interp, x *Term) Value {
		if x.IsConst() {
			return in.tb.Const(32, x.Val)
		}
		if x.Op == OpBitsToF {
			return x.Args[0]
		}
		panic(unsupported{"math.Float32bits of symbolic float"})
	})
	intrinsics["math.IsInf"] = func(in *Interp, th *Thread, fn *ssa.Function, args []Value, d func(Value)) (Value, bool) {
		x, s := args[0].(*Term), args[1].(*Term)
		tb := in.tb
		inf := tb.FUn(OpFIsInf, x, 0)
		pos := tb.FCmp(OpFLt, tb.FConst(64, 0), x)
		sz := tb.Eq(s, in.c64(0))
		sp := tb.BvCmp(OpSLt, in.c64(0), s)
		return tb.And(inf, tb.Or(sz, tb.Ite(sp, pos, tb.Not(pos)))), true
	}
	intrinsics["math.Inf"] = func(in *Interp, th *Thread, fn *ssa.Function, args []Value, d func(Value)) (Value, bool) {
		s := args[0].(*Term)
		tb := in.tb
		return tb.Ite(tb.BvCmp(OpSLe, in.c64(0), s), tb.FConst(64, math.Inf(1)), tb.FConst(64, math.Inf(-1))), true
	}
	intrinsics["math.NaN"] = func(in *Interp, th *Thread, fn *ssa.Function, args []Value, d func(Value)) (Value, bool) {
		return in.tb.FBits(64, 0x7FF8000000000001), true
	}
	intrinsics["math.Max"] = func(in *Interp, th *Thread, fn *ssa.Function, args []Value, d func(Value)) (Value, bool) {
		return in.mathMaxMin(args[0].(*Term), args[1].(*Term), true), true
	}
	intrinsics["math.Min"] = func(in *Interp, th *Thread, fn *ssa.Function, args []Value, d func(Value)) (Value, bool) {
		return in.mathMaxMin(args[0].(*Term), args[1].(*Term), false), true
	}
	native2 := func(name string, f func(a, b float64) float64) {
		intrinsics[name] = func(in *Interp, th *Thread, fn *ssa.Function, args []Value, d func(Value)) (Value, bool) {
			x, y := args[0].(*Term), args[1].(*Term)
			if x.IsConst() && y.IsConst() {
				return in.tb.FConst(64, f(fval(x), fval(y))), true
			}
			in.note("uninterpreted " + name)
			return in.tb.UF("uf_"+name, FP(64), x, y), true
		}
	}
	native1 := func(name string, f func(a float64) float64) {
		intrinsics[name] = func(in *Interp, th *Thread, fn *ssa.Function, args []Value, d func(Value)) (Value, bool) {
			x := args[0].(*Term)
			if x.IsConst() {
				return in.tb.FConst(64, f(fval(x))), true
			}
			in.note("uninterpreted " + name)
			return in.tb.UF("uf_"+name, FP(64), x), true
		}
	}
	native2("math.Pow", math.Pow)
	native2("math.Mod", math.Mod)
	native2("math.Hypot", math.Hypot)
	native1("math.Log", math.Log)
	native1("math.Log2", math.Log2)
	native1("math.Log10", math.Log10)
	native1("math.Exp", math.Exp)
	native1("math.Log1p", math.Log1p)
}

func (in *Interp) mathMaxMin(x, y *Term, isMax bool) *Term {
	tb := in.tb
	if x.IsConst() && y.IsConst() {
		if isMax {
			return tb.FConst(64, math.Max(fval(x), fval(y)))
		}
		return tb.FConst(64, math.Min(fval(x), fval(y)))
	}
	nan := tb.Or(tb.FUn(OpFIsNaN, x, 0), tb.FUn(OpFIsNaN, y, 0))
	infp := tb.FConst(64, math.Inf(1))
	infn := tb.FConst(64, math.Inf(-1))
	nanv := tb.FBits(64, 0x7FF8000000000001)
	if isMax {
		anyInf := tb.Or(tb.Eq(x, infp), tb.Eq(y, infp))
		pick := tb.Ite(tb.FCmp(OpFLt, y, x), x, tb.Ite(tb.FCmp(OpFLt, x, y), y,
			// equal (or both zero): prefer +0
			tb.Ite(tb.Eq(x, tb.FBits(64, 1<<63)), y, x)))
		return tb.Ite(anyInf, infp, tb.Ite(nan, nanv, pick))
	}
	anyInf := tb.Or(tb.Eq(x, infn), tb.Eq(y, infn))
	pick := tb.Ite(tb.FCmp(OpFLt, x, y), x, tb.Ite(tb.FCmp(OpFLt, y, x), y,
		tb.Ite(tb.Eq(x, tb.FBits(64, 1<<63)), x, y)))
	return tb.Ite(anyInf, infn, tb.Ite(nan, nanv, pick))
}
