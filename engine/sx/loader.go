package sx

import (
	"fmt"
	"os"
	"path/filepath"
	"regexp"
	"sort"
	"strconv"
	"strings"
	"time"

	"golang.org/x/tools/go/packages"
	"golang.org/x/tools/go/ssa"
	"golang.org/x/tools/go/ssa/ssautil"
)

type EntryOpts struct {
	Loop    int
	Steps   int64
	Preempt int
	Paths   int
	MapOrderAll bool
}

type Harness struct {
	File     string // harness source path
	PkgDir   string // directory inside /repo
	PkgName  string
	Stubs    map[string]string
	Noops    map[string]bool
	Cuts     map[string]bool
	Solver   string
	NoReplay bool
	NoReplayWhy string
	NoReplayStubbed bool
	Lazy     bool
	PoolReuse bool
	Timeout  time.Duration
	Quick    EntryOpts
	Thorough EntryOpts
	PerEntry map[string]map[string]EntryOpts // entry -> tier -> opts
	ThoroughOnly map[string]bool
	QuickOnly map[string]bool
	Assumptions []string
	Outside  []string
	Src      string

	Prog    *ssa.Program
	Pkg     *ssa.Package
	Entries []*ssa.Function
	LoadDur time.Duration
}

var pkgClause = regexp.MustCompile(`(?m)^package\s+(\w+)`)

func parseOpts(fields []string, base EntryOpts) EntryOpts {
	o := base
	for _, f := range fields {
		kv := strings.SplitN(f, "=", 2)
		if len(kv) != 2 {
			continue
		}
		n, _ := strconv.ParseInt(kv[1], 10, 64)
		switch kv[0] {
		case "loop":
			o.Loop = int(n)
		case "steps":
			o.Steps = n
		case "preempt":
			o.Preempt = int(n)
		case "paths":
			o.Paths = int(n)
		case "maporder":
			o.MapOrderAll = kv[1] == "all"
		}
	}
	return o
}

func ParseHarness(file string) (*Harness, error) {
	data, err := os.ReadFile(file)
	if err != nil {
		return nil, err
	}
	h := &Harness{File: file, Src: string(data), Stubs: map[string]string{}, Noops: map[string]bool{}, Cuts: map[string]bool{},
		PerEntry: map[string]map[string]EntryOpts{}, ThoroughOnly: map[string]bool{}, QuickOnly: map[string]bool{}}
	h.Quick = EntryOpts{Loop: 16, Steps: 2000000, Preempt: 2, Paths: 20000}
	h.Thorough = EntryOpts{Loop: 64, Steps: 20000000, Preempt: 3, Paths: 400000}
	m := pkgClause.FindStringSubmatch(h.Src)
	if m == nil {
		return nil, fmt.Errorf("%s: no package clause", file)
	}
	h.PkgName = m[1]
	for _, line := range strings.Split(h.Src, "\n") {
		line = strings.TrimSpace(line)
		if !strings.HasPrefix(line, "//verif:") {
			continue
		}
		rest := strings.TrimPrefix(line, "//verif:")
		fs := strings.Fields(rest)
		if len(fs) == 0 {
			continue
		}
		switch fs[0] {
		case "pkg":
			h.PkgDir = fs[1]
		case "stub":
			parts := strings.SplitN(strings.TrimPrefix(rest, "stub"), "=>", 2)
			if len(parts) == 2 {
				h.Stubs[strings.TrimSpace(parts[0])] = strings.TrimSpace(parts[1])
			}
		case "noop":
			h.Noops[strings.TrimSpace(strings.TrimPrefix(rest, "noop"))] = true
		case "cut":
			h.Cuts[strings.TrimSpace(strings.TrimPrefix(rest, "cut"))] = true
		case "solver":
			h.Solver = fs[1]
		case "noreplay-stubbed": // entries that hit a //verif:stub are not replayed natively
			h.NoReplayStubbed = true
		case "poolreuse":
			h.PoolReuse = true
		case "lazyfp":
			h.Lazy = true
		case "noreplay":
			h.NoReplay = true
			h.NoReplayWhy = strings.TrimSpace(strings.TrimPrefix(rest, "noreplay"))
		case "timeout":
			h.Timeout, _ = time.ParseDuration(fs[1])
		case "bound":
			h.Quick = parseOpts(fs[1:], h.Quick)
			h.Thorough = parseOpts(fs[1:], h.Thorough)
		case "quick":
			h.Quick = parseOpts(fs[1:], h.Quick)
		case "thorough":
			h.Thorough = parseOpts(fs[1:], h.Thorough)
		case "entry": // //verif:entry name quick|thorough|both k=v...
			if len(fs) >= 3 {
				if h.PerEntry[fs[1]] == nil {
					h.PerEntry[fs[1]] = map[string]EntryOpts{}
				}
				tiers := []string{fs[2]}
				if fs[2] == "both" {
					tiers = []string{"quick", "thorough"}
				}
				for _, t := range tiers {
					base := h.Quick
					if t == "thorough" {
						base = h.Thorough
					}
					if prev, ok := h.PerEntry[fs[1]][t]; ok {
						base = prev
					}
					h.PerEntry[fs[1]][t] = parseOpts(fs[3:], base)
				}
			}
		case "thoroughonly":
			for _, n := range fs[1:] {
				h.ThoroughOnly[n] = true
			}
		case "quickonly":
			for _, n := range fs[1:] {
				h.QuickOnly[n] = true
			}
		case "assume":
			h.Assumptions = append(h.Assumptions, strings.TrimSpace(strings.TrimPrefix(rest, "assume")))
		case "outside":
			h.Outside = append(h.Outside, strings.TrimSpace(strings.TrimPrefix(rest, "outside")))
		}
	}
	if h.PkgDir == "" {
		return nil, fmt.Errorf("%s: missing //verif:pkg", file)
	}
	return h, nil
}

func (h *Harness) Opts(entry, tier string) EntryOpts {
	if pe, ok := h.PerEntry[entry]; ok {
		if o, ok := pe[tier]; ok {
			return o
		}
	}
	if tier == "thorough" {
		return h.Thorough
	}
	return h.Quick
}

func GoEnv() []string {
	env := os.Environ()
	var out []string
	for _, e := range env {
		if strings.HasPrefix(e, "PATH=") || strings.HasPrefix(e, "GOFLAGS=") || strings.HasPrefix(e, "GOTOOLCHAIN=") ||
			strings.HasPrefix(e, "GOPROXY=") || strings.HasPrefix(e, "GOSUMDB=") {
			continue
		}
		out = append(out, e)
	}
	out = append(out, "PATH=/opt/veriftools/go1.26.8/bin:"+os.Getenv("PATH"), "GOFLAGS=-mod=mod", "GOTOOLCHAIN=local", "GOPROXY=off", "GOSUMDB=off")
	return out
}

// Overlay returns the overlay map injecting harness and prelude into the repo package directory.
func (h *Harness) Overlay(repo string) map[string][]byte {
	dir := filepath.Join(repo, h.PkgDir)
	return map[string][]byte{
		filepath.Join(dir, "zz_verif_harness.go"): []byte(h.Src),
		filepath.Join(dir, "zz_verif_prelude.go"): []byte(strings.ReplaceAll(PreludeSrc, "%PKG%", h.PkgName)),
	}
}

func (h *Harness) Load(repo string) error {
	t0 := time.Now()
	cfg := &packages.Config{
		Mode:       packages.LoadAllSyntax,
		Dir:        repo,
		BuildFlags: []string{"-tags=verif"},
		Overlay:    h.Overlay(repo),
		Env:        GoEnv(),
	}
	pkgs, err := packages.Load(cfg, "./"+h.PkgDir)
	if err != nil {
		return err
	}
	var errs []string
	packages.Visit(pkgs, nil, func(p *packages.Package) {
		for _, e := range p.Errors {
			errs = append(errs, e.Error())
		}
	})
	if len(errs) > 0 {
		if len(errs) > 10 {
			errs = errs[:10]
		}
		return fmt.Errorf("load errors:\n%s", strings.Join(errs, "\n"))
	}
	prog, spkgs := ssautil.AllPackages(pkgs, ssa.InstantiateGenerics)
	prog.Build()
	h.Prog = prog
	h.Pkg = spkgs[0]
	for name, m := range h.Pkg.Members {
		if f, ok := m.(*ssa.Function); ok && strings.HasPrefix(name, "verifH_") {
			h.Entries = append(h.Entries, f)
		}
	}
	sort.Slice(h.Entries, func(i, j int) bool { return h.Entries[i].Name() < h.Entries[j].Name() })
	h.LoadDur = time.Since(t0)
	return nil
}
