package sx

import (
	"fmt"
	"go/types"
	"os"
	"reflect"
	"runtime/debug"
	"strconv"
	"strings"
	"unicode"
	"unicode/utf8"

	"golang.org/x/tools/go/ssa"
)

// Poison marks a value produced by a failed initialiser; any use is unsupported.
type Poison struct{ why string }

var deniedInit = []string{
	"runtime", "os", "net", "reflect", "syscall", "crypto", "internal/", "google.golang.org/protobuf",
	"google.golang.org/genproto", "github.com/", "golang.org/x/sys", "golang.org/x/net/http2", "golang.org/x/net/trace",
	"golang.org/x/net/internal", "golang.org/x/net/idna", "golang.org/x/text",
	"encoding/json", "log", "testing", "flag", "math/rand", "unique", "hash/maphash", "expvar",
	"net/http", "html", "text/template", "compress", "go/", "embed", "io/fs", "path/filepath", "os/",
	"golang.org/x/oauth2", "cloud.google.com", "go.opentelemetry.io", "golang.org/x/crypto", "vendor/", "iter", "weak",
	"encoding/gob", "encoding/xml", "database", "plugin", "mime", "image", "archive", "debug",
}

var allowedInit = []string{
	"net/netip", "net/url", "internal/godebug", "internal/itoa", "internal/stringslite", "internal/byteorder",
	"github.com/cespare/xxhash", "golang.org/x/net/http2/hpack", "internal/bisect", "internal/race", "internal/abi",
	"internal/oserror", "internal/goarch", "internal/goos", "internal/unsafeheader", "internal/strconv",
}

func (in *Interp) initDenied(p *ssa.Package) bool {
	path := p.Pkg.Path()
	for _, a := range allowedInit {
		if path == a || strings.HasPrefix(path, a+"/") {
			return false
		}
	}
	for _, d := range deniedInit {
		if path == d || strings.HasPrefix(path, d+"/") || (strings.HasSuffix(d, "/") && strings.HasPrefix(path, d)) {
			return true
		}
	}
	// generated protobuf packages inside the repo
	for _, f := range p.Members {
		if g, ok := f.(*ssa.Global); ok && strings.HasPrefix(g.Name(), "File_") {
			return true
		}
	}
	return false
}

// ensureInit runs the package initialiser of p (and, through it, of its allowed imports).
func (in *Interp) ensureInit(p *ssa.Package) {
	if p == nil || in.inited[p] != 0 {
		return
	}
	if in.initDenied(p) {
		in.inited[p] = 3
		return
	}
	initFn := p.Func("init")
	if initFn == nil {
		in.inited[p] = 2
		return
	}
	in.inited[p] = 1
	in.runInit(initFn)
	in.inited[p] = 2
}

func (in *Interp) runInit(fn *ssa.Function) {
	savedEpoch, savedNT, savedCur, savedThreads := in.epoch, in.noTrail, in.cur, in.threads
	savedSteps := in.steps
	in.epoch, in.noTrail = 0, true
	savedInit := in.inInit
	in.inInit = true
	th := &Thread{id: -1, name: "init"}
	in.threads = []*Thread{th}
	in.cur = th
	in.pushFrame(th, fn, nil, nil, -1)
	for !th.done {
		in.initStepLoop(th)
	}
	in.epoch, in.noTrail, in.cur, in.threads = savedEpoch, savedNT, savedCur, savedThreads
	in.steps = savedSteps
	in.inInit = savedInit
}

func (in *Interp) initStepLoop(th *Thread) {
	defer func() {
		if r := recover(); r != nil {
			var why string
			switch e := r.(type) {
			case unsupported:
				why = e.msg
			case rtPanicNow:
				return
			case pathEnd:
				why = "init ended: " + e.kind + " " + e.msg
			default:
				why = "engine error: " + fmt.Sprint(r)
				if os.Getenv("GOSX_DEBUG") != "" {
					fmt.Fprintf(os.Stderr, "INIT ENGINE ERROR %v at %s\nGOSTACK %s\n%s\n", r, in.curPos(th), in.stack(th), debug.Stack())
				}
			}
			in.note("init: skipped (" + why + ") in " + in.initWhere(th))
			// unwind to the package initialiser frame (depth of the lowest "init" frame) and poison
			in.skipFailedInit(th, why)
		}
	}()
	for !th.done {
		if th.parked != nil {
			if th.parked.enabled() {
				p := th.parked
				th.parked = nil
				p.fire()
				continue
			}
			panic(unsupported{"init blocks on " + th.parked.desc})
		}
		in.steps = 0
		in.step(th)
	}
}

func (in *Interp) initWhere(th *Thread) string {
	for i := len(th.frames) - 1; i >= 0; i-- {
		if fr := th.frames[i]; fr.fn != nil && fr.fn.Synthetic != "" && strings.Contains(fr.fn.Synthetic, "package init") {
			return fr.fn.Pkg.Pkg.Path() + "@" + in.curPosFrame(fr)
		}
	}
	return "?"
}

func (in *Interp) curPosFrame(fr *Frame) string {
	for j := fr.ip; j >= 0; j-- {
		if j < len(fr.block.Instrs) {
			if p := fr.block.Instrs[j].Pos(); p.IsValid() {
				return in.posStr(p)
			}
		}
	}
	return "?"
}

// skipFailedInit pops frames down to the innermost package-initialiser frame and poisons the
// result of the instruction that failed there.
func (in *Interp) skipFailedInit(th *Thread, why string) {
	th.panicking = false
	th.parked = nil
	k := -1
	for i := len(th.frames) - 1; i >= 0; i-- {
		fr := th.frames[i]
		if fr.fn != nil && (strings.Contains(fr.fn.Synthetic, "package init") || (fr.fn.Name() == "init" || strings.HasPrefix(fr.fn.Name(), "init#")) && fr.fn.Signature.Recv() == nil) {
			k = i
			break
		}
	}
	if k < 0 {
		th.frames = nil
		th.done = true
		return
	}
	popped := len(th.frames)-1 > k
	th.frames = th.frames[:k+1]
	fr := th.frames[k]
	// the failing instruction: if frames were popped, ip already points after the call;
	// otherwise ip is at the failing instruction.
	idx := fr.ip
	if popped {
		idx = fr.ip - 1
	} else {
		fr.ip++
	}
	if idx >= 0 && idx < len(fr.block.Instrs) {
		if v, ok := fr.block.Instrs[idx].(ssa.Value); ok {
			in.set(fr, v, Poison{why})
		}
	}
	if fr.ip >= len(fr.block.Instrs) {
		// failed on the terminator: abandon this initialiser
		th.frames = th.frames[:k]
		if len(th.frames) == 0 {
			th.done = true
		}
	}
}

func (in *Interp) tryIfConvert(th *Thread, fr *Frame, x *ssa.If, c *Term) bool {
	return in.ifConvert(th, fr, x, c)
}

// ---- native bridge for pure std functions on concrete arguments ----

var nativeFuncs = map[string]interface{}{
	"strconv.Itoa":        strconv.Itoa,
	"strconv.FormatInt":   strconv.FormatInt,
	"strconv.FormatUint":  strconv.FormatUint,
	"strconv.Quote":       strconv.Quote,
	"strconv.FormatBool":  strconv.FormatBool,
	"strconv.FormatFloat": strconv.FormatFloat,
	"strings.ToLower":     strings.ToLower,
	"strings.ToUpper":     strings.ToUpper,
	"strings.TrimSpace":   strings.TrimSpace,
	"strings.HasPrefix":   strings.HasPrefix,
	"strings.HasSuffix":   strings.HasSuffix,
	"strings.Contains":    strings.Contains,
	"strings.Index":       strings.Index,
	"strings.IndexByte":   strings.IndexByte,
	"strings.LastIndex":   strings.LastIndex,
	"strings.LastIndexByte": strings.LastIndexByte,
	"strings.TrimPrefix":  strings.TrimPrefix,
	"strings.TrimSuffix":  strings.TrimSuffix,
	"strings.TrimLeft":    strings.TrimLeft,
	"strings.TrimRight":   strings.TrimRight,
	"strings.Trim":        strings.Trim,
	"strings.Repeat":      strings.Repeat,
	"strings.EqualFold":   strings.EqualFold,
	"strings.Count":       strings.Count,
	"strings.ReplaceAll":  strings.ReplaceAll,
	"strings.ContainsRune": strings.ContainsRune,
	"strings.ContainsAny": strings.ContainsAny,
	"strings.IndexAny":    strings.IndexAny,
	"strings.IndexRune":   strings.IndexRune,
	"strings.Compare":     strings.Compare,
	"strings.Title":       strings.Title,
	"strings.ToValidUTF8": strings.ToValidUTF8,
	"unicode/utf8.ValidString": utf8.ValidString,
	"unicode/utf8.RuneCountInString": utf8.RuneCountInString,
	"path.Base": nil,
}

func (in *Interp) tryNative(name string, args []Value) (Value, bool) {
	f, ok := nativeFuncs[name]
	if !ok || f == nil {
		return nil, false
	}
	fv := reflect.ValueOf(f)
	ft := fv.Type()
	if ft.NumIn() != len(args) || ft.IsVariadic() {
		return nil, false
	}
	ins := make([]reflect.Value, len(args))
	for i, a := range args {
		pt := ft.In(i)
		switch x := a.(type) {
		case *StrV:
			if !x.Conc || pt.Kind() != reflect.String {
				return nil, false
			}
			ins[i] = reflect.ValueOf(x.S)
		case *Term:
			if !x.IsConst() {
				return nil, false
			}
			rv := reflect.New(pt).Elem()
			switch pt.Kind() {
			case reflect.Int, reflect.Int64, reflect.Int32, reflect.Int16, reflect.Int8:
				rv.SetInt(sext(x.Val, x.Sort.W))
			case reflect.Uint, reflect.Uint64, reflect.Uint32, reflect.Uint16, reflect.Uint8:
				rv.SetUint(x.Val)
			case reflect.Bool:
				rv.SetBool(x.Val == 1)
			case reflect.Float64:
				rv.SetFloat(fval(x))
			default:
				return nil, false
			}
			ins[i] = rv
		default:
			return nil, false
		}
	}
	outs := fv.Call(ins)
	conv := func(o reflect.Value) Value {
		switch o.Kind() {
		case reflect.String:
			return concString(o.String())
		case reflect.Bool:
			return in.tb.Bool(o.Bool())
		case reflect.Int, reflect.Int64:
			return in.c64(uint64(o.Int()))
		case reflect.Int32:
			return in.tb.Const(32, uint64(o.Int()))
		case reflect.Uint64, reflect.Uint:
			return in.c64(o.Uint())
		}
		return nil
	}
	if len(outs) == 1 {
		if v := conv(outs[0]); v != nil {
			return v, true
		}
	}
	return nil, false
}

// toNative converts a (boxed) value to a Go value for formatting; ok=false when symbolic/opaque.
func (in *Interp) toNative(v Value, t types.Type) (interface{}, bool) {
	switch x := v.(type) {
	case IfaceV:
		if x.T == nil {
			return nil, true
		}
		return in.toNative(x.V, x.T)
	case *StrV:
		if x.Conc {
			return x.S, true
		}
	case *Term:
		if !x.IsConst() {
			return nil, false
		}
		switch x.Sort.K {
		case SBool:
			return x.Val == 1, true
		case SFP:
			return fval(x), true
		default:
			if t != nil && !isSigned(t) {
				switch x.Sort.W {
				case 8:
					return uint8(x.Val), true
				case 16:
					return uint16(x.Val), true
				case 32:
					return uint32(x.Val), true
				}
				return x.Val, true
			}
			switch x.Sort.W {
			case 8:
				return int8(x.Val), true
			case 16:
				return int16(x.Val), true
			case 32:
				return int32(x.Val), true
			}
			return int64(x.Val), true
		}
	case Ptr:
		// *errors.errorString and friends: show the first string field
		if c, ok := x.single(); ok && c != nil && len(c.Kids) > 0 {
			if s, ok := in.loadCell(c.Kids[0]).(*StrV); ok && s.Conc {
				return fmtOpaque{s.S}, true
			}
		}
	}
	return nil, false
}

type fmtOpaque struct{ s string }

func (f fmtOpaque) String() string { return f.s }
func (f fmtOpaque) Error() string  { return f.s }

func (in *Interp) sprintf(format string, args []Value) string {
	nat := make([]interface{}, len(args))
	for i, a := range args {
		n, ok := in.toNative(a, nil)
		if !ok {
			in.note("fmt: opaque argument")
			n = fmtOpaque{"<?>"}
		}
		nat[i] = n
	}
	return fmt.Sprintf(format, nat...)
}

func (in *Interp) sliceValues(v Value) []Value {
	s := v.(SliceV)
	if s.Arr == nil {
		return nil
	}
	n := in.concLen(s.Len, s.Arr.N)
	out := make([]Value, n)
	for i := range out {
		out[i] = in.sliceGetC(s, i)
	}
	return out
}

// mkStruct allocates a struct of named type pkg.name with given field values; returns pointer.
func (in *Interp) mkStructPtr(pkgPath, name string, fields map[string]Value) (Ptr, types.Type) {
	p := in.prog.ImportedPackage(pkgPath)
	if p == nil {
		panic(unsupported{"package not loaded: " + pkgPath})
	}
	tn := p.Type(name)
	if tn == nil {
		panic(unsupported{"type not found: " + pkgPath + "." + name})
	}
	t := tn.Type()
	c := in.newCell(t)
	st := t.Underlying().(*types.Struct)
	for i := 0; i < st.NumFields(); i++ {
		if v, ok := fields[st.Field(i).Name()]; ok {
			in.storeCell(c.Kids[i], v)
		}
	}
	return mkPtr(in.tb, c), types.NewPointer(t)
}

func (in *Interp) mkError(msg string, wrapped Value) Value {
	if wrapped != nil {
		if iv, ok := wrapped.(IfaceV); ok {
			p, t := in.mkStructPtr("fmt", "wrapError", map[string]Value{"msg": concString(msg), "err": iv})
			return IfaceV{T: t, V: p}
		}
	}
	p, t := in.mkStructPtr("errors", "errorString", map[string]Value{"s": concString(msg)})
	return IfaceV{T: t, V: p}
}

func registerMisc() {
	I := intrinsics
	// native fast paths
	for name := range nativeFuncs {
		name := name
		if nativeFuncs[name] == nil {
			continue
		}
		I[name] = func(in *Interp, th *Thread, fn *ssa.Function, args []Value, d func(Value)) (Value, bool) {
			if v, ok := in.tryNative(name, args); ok {
				return v, true
			}
			return nil, false
		}
	}
	I["fmt.Sprintf"] = func(in *Interp, th *Thread, fn *ssa.Function, args []Value, d func(Value)) (Value, bool) {
		f, ok := strArg(args[0])
		if !ok {
			return concString("<fmt?>"), true
		}
		return in.sprintfSym(f, in.sliceValues(args[1])), true
	}
	I["internal/abi.NoEscape"] = func(in *Interp, th *Thread, fn *ssa.Function, args []Value, d func(Value)) (Value, bool) {
		return args[0], true
	}
	I["internal/abi.Escape"] = I["internal/abi.NoEscape"]
	I["fmt.Sprint"] =func(in *Interp, th *Thread, fn *ssa.Function, args []Value, d func(Value)) (Value, bool) {
		vs := in.sliceValues(args[0])
		nat := make([]interface{}, len(vs))
		for i, a := range vs {
			n, ok := in.toNative(a, nil)
			if !ok {
				n = fmtOpaque{"<?>"}
			}
			nat[i] = n
		}
		return concString(fmt.Sprint(nat...)), true
	}
	I["fmt.Sprintln"] = I["fmt.Sprint"]
	I["fmt.Errorf"] = func(in *Interp, th *Thread, fn *ssa.Function, args []Value, d func(Value)) (Value, bool) {
		f, _ := strArg(args[0])
		vs := in.sliceValues(args[1])
		var wrapped Value
		if strings.Contains(f, "%w") {
			// find the operand of %w
			k := 0
			for i := 0; i+1 < len(f); i++ {
				if f[i] == '%' {
					if f[i+1] == '%' {
						i++
						continue
					}
					j := i + 1
					for j < len(f) && strings.ContainsRune("+-# 0123456789.", rune(f[j])) {
						j++
					}
					if j < len(f) && f[j] == 'w' && k < len(vs) {
						wrapped = vs[k]
					}
					k++
					i = j
				}
			}
		}
		msg := in.sprintf(strings.ReplaceAll(f, "%w", "%v"), vs)
		return in.mkError(msg, wrapped), true
	}
	for _, n := range []string{"fmt.Fprintf", "fmt.Fprint", "fmt.Fprintln", "fmt.Printf", "fmt.Println", "fmt.Print"} {
		n := n
		I[n] = func(in *Interp, th *Thread, fn *ssa.Function, args []Value, d func(Value)) (Value, bool) {
			if n == "fmt.Fprint" || n == "fmt.Fprintln" {
				w := args[0].(IfaceV)
				if w.T == nil {
					panic(unsupported{n + " to a nil writer"})
				}
				st := in.sprintSym(in.sliceValues(args[1]), n == "fmt.Fprintln")
				ms := in.prog.MethodSets.MethodSet(w.T)
				for i := 0; i < ms.Len(); i++ {
					if ms.At(i).Obj().Name() == "Write" {
						mf := in.prog.MethodValue(ms.At(i))
						bs := in.strToBytes(st, types.Typ[types.Uint8])
						in.callThen(th, &FuncV{Fn: mf}, []Value{w.V, bs}, func(r Value) { d(r) })
						return asyncResult, true
					}
				}
				panic(unsupported{n + ": writer without Write"})
			}
			if n == "fmt.Fprintf" {
				// write formatted bytes through the writer
				f, ok := strArg(args[1])
				w := args[0].(IfaceV)
				if ok && w.T != nil {
					s := in.sprintfSym(f, in.sliceValues(args[2]))
					for _, m := range []string{"Write"} {
						ms := in.prog.MethodSets.MethodSet(w.T)
						for i := 0; i < ms.Len(); i++ {
							if ms.At(i).Obj().Name() == m {
								mf := in.prog.MethodValue(ms.At(i))
								bs := in.strToBytes(s, types.Typ[types.Uint8])
								in.callThen(th, &FuncV{Fn: mf}, []Value{w.V, bs}, func(r Value) { d(r) })
								return asyncResult, true
							}
						}
					}
				}
			}
			in.note("noop " + n)
			return in.zeroResults(fn), true
		}
	}
	I["os.Getenv"] = func(in *Interp, th *Thread, fn *ssa.Function, args []Value, d func(Value)) (Value, bool) {
		return concString(""), true
	}
	I["os.LookupEnv"] = func(in *Interp, th *Thread, fn *ssa.Function, args []Value, d func(Value)) (Value, bool) {
		return TupleV{concString(""), in.tb.False}, true
	}
	I["os.Getpid"] = func(in *Interp, th *Thread, fn *ssa.Function, args []Value, d func(Value)) (Value, bool) {
		return in.c64(4242), true
	}
	noop := func(in *Interp, th *Thread, fn *ssa.Function, args []Value, d func(Value)) (Value, bool) {
		return in.zeroResults(fn), true
	}
	for _, n := range []string{"runtime.SetFinalizer", "runtime.KeepAlive", "runtime.GC", "sync.runtime_registerPoolCleanup",
		"internal/race.Acquire", "internal/race.Release", "internal/race.ReleaseMerge", "internal/race.Disable", "internal/race.Enable",
		"internal/race.Read", "internal/race.Write", "internal/race.ReadRange", "internal/race.WriteRange", "runtime/pprof.SetGoroutineLabels",
		"runtime/pprof.Do", "runtime/debug.SetTraceback", "runtime.AddCleanup", "internal/godebug.setUpdate",
		"internal/godebug.registerMetric", "sync.runtime_notifyListCheck", "internal/godebug.setNewIncNonDefault"} {
		I[n] = noop
	}
	I["(*internal/godebug.Setting).Value"] = func(in *Interp, th *Thread, fn *ssa.Function, args []Value, d func(Value)) (Value, bool) {
		return concString(""), true
	}
	I["(*internal/godebug.Setting).IncNonDefault"] = noop
	I["runtime.GOMAXPROCS"] = func(in *Interp, th *Thread, fn *ssa.Function, args []Value, d func(Value)) (Value, bool) {
		return in.c64(4), true
	}
	I["runtime.NumCPU"] = I["runtime.GOMAXPROCS"]
	I["runtime.NumGoroutine"] = I["runtime.GOMAXPROCS"]

	// randomness: nondeterministic value in the documented range
	randInt := func(name string, w int) intrinsic {
		return func(in *Interp, th *Thread, fn *ssa.Function, args []Value, d func(Value)) (Value, bool) {
			v := in.newNondetScalar("rand:"+name, "uint64", BV(w))
			tb := in.tb
			if len(args) > 0 {
				n := args[len(args)-1].(*Term)
				in.assume(tb.And(tb.BvCmp(OpSLe, tb.Const(w, 0), v), tb.BvCmp(OpSLt, v, n)))
			} else {
				in.assume(tb.BvCmp(OpSLe, tb.Const(w, 0), v))
			}
			return v, true
		}
	}
	for _, p := range []string{"math/rand.", "math/rand/v2."} {
		I[p+"Int63n"] = randInt("Int63n", 64)
		I[p+"Int64N"] = randInt("Int64N", 64)
		I[p+"Int63"] = randInt("Int63", 64)
		I[p+"Int64"] = randInt("Int64", 64)
		I[p+"Intn"] = randInt("Intn", 64)
		I[p+"IntN"] = randInt("IntN", 64)
		I[p+"Int"] = randInt("Int", 64)
		I[p+"Int31n"] = randInt("Int31n", 32)
		I[p+"Int32N"] = randInt("Int32N", 32)
		I[p+"Int31"] = randInt("Int31", 32)
		I[p+"Uint32"] = func(in *Interp, th *Thread, fn *ssa.Function, args []Value, d func(Value)) (Value, bool) {
			return in.newNondetScalar("rand:Uint32", "uint32", BV(32)), true
		}
		I[p+"Uint64"] = func(in *Interp, th *Thread, fn *ssa.Function, args []Value, d func(Value)) (Value, bool) {
			return in.newNondetScalar("rand:Uint64", "uint64", BV(64)), true
		}
		I[p+"Float64"] = func(in *Interp, th *Thread, fn *ssa.Function, args []Value, d func(Value)) (Value, bool) {
			v := in.newNondetScalar("rand:Float64", "float64", BV(64))
			f := in.tb.BitsToF(64, v)
			in.assume(in.tb.And(in.tb.FCmp(OpFLe, in.tb.FConst(64, 0), f), in.tb.FCmp(OpFLt, f, in.tb.FConst(64, 1))))
			return f, true
		}
		I[p+"Shuffle"] = func(in *Interp, th *Thread, fn *ssa.Function, args []Value, d func(Value)) (Value, bool) {
			in.note("rand.Shuffle modelled as identity")
			return nil, true
		}
	}

	// time
	I["time.Now"] = func(in *Interp, th *Thread, fn *ssa.Function, args []Value, d func(Value)) (Value, bool) {
		return in.timeValue(in.clock()), true
	}
	I["time.runtimeNano"] = func(in *Interp, th *Thread, fn *ssa.Function, args []Value, d func(Value)) (Value, bool) {
		return in.clock(), true
	}
	I["time.Since"] = func(in *Interp, th *Thread, fn *ssa.Function, args []Value, d func(Value)) (Value, bool) {
		sub := in.prog.ImportedPackage("time").Type("Time")
		m := in.lookupMethodByName(sub.Type(), "Sub")
		in.callThen(th, &FuncV{Fn: m}, []Value{in.timeValue(in.clock()), args[0]}, d)
		return asyncResult, true
	}
	I["time.Until"] = func(in *Interp, th *Thread, fn *ssa.Function, args []Value, d func(Value)) (Value, bool) {
		sub := in.prog.ImportedPackage("time").Type("Time")
		m := in.lookupMethodByName(sub.Type(), "Sub")
		in.callThen(th, &FuncV{Fn: m}, []Value{args[0], in.timeValue(in.clock())}, d)
		return asyncResult, true
	}
	I["time.Sleep"] = func(in *Interp, th *Thread, fn *ssa.Function, args []Value, d func(Value)) (Value, bool) {
		in.visible(th, &parkInfo{desc: "Sleep", enabled: always, fire: func() { d(nil) }})
		return asyncResult, true
	}
	newTimer := func(in *Interp, dur *Term, f Value, withChan bool) (Ptr, *Timer) {
		p, _ := in.mkStructPtr("time", "Timer", nil)
		c, _ := p.single()
		t := &Timer{cell: c, deadline: in.tb.BvBin(OpAdd, in.clock(), dur), f: f, active: true, seq: len(in.timers)}
		if withChan {
			tt := in.prog.ImportedPackage("time").Type("Time").Type()
			t.ch = in.newChan(1, tt)
			in.storeCell(c.Kids[0], t.ch)
		}
		in.timers = append(in.timers, t)
		in.side[c] = t
		return p, t
	}
	I["time.AfterFunc"] = func(in *Interp, th *Thread, fn *ssa.Function, args []Value, d func(Value)) (Value, bool) {
		p, _ := newTimer(in, args[0].(*Term), args[1], false)
		return p, true
	}
	I["time.NewTimer"] = func(in *Interp, th *Thread, fn *ssa.Function, args []Value, d func(Value)) (Value, bool) {
		p, _ := newTimer(in, args[0].(*Term), nil, true)
		return p, true
	}
	I["time.After"] = func(in *Interp, th *Thread, fn *ssa.Function, args []Value, d func(Value)) (Value, bool) {
		_, t := newTimer(in, args[0].(*Term), nil, true)
		return t.ch, true
	}
	timerOf := func(in *Interp, v Value) *Timer {
		c := in.cellOf(v, "Timer")
		t, ok := in.side[c].(*Timer)
		if !ok {
			panic(unsupported{"Stop/Reset on unknown timer"})
		}
		return t
	}
	// Wall-clock readings of engine-made times: the engine's time values carry the virtual clock as their monotonic
	// reading only (wall seconds are not encoded), so the Unix* accessors are answered from that reading (the virtual
	// clock counts nanoseconds since the Unix epoch). Times built by the program itself (time.Unix, time.Date) have no
	// monotonic reading and go through the source.
	unixOf := func(div uint64) func(in *Interp, th *Thread, fn *ssa.Function, args []Value, d func(Value)) (Value, bool) {
		return func(in *Interp, th *Thread, fn *ssa.Function, args []Value, d func(Value)) (Value, bool) {
			tv, ok := args[0].(*StructV)
			if !ok || len(tv.F) < 2 {
				return nil, false
			}
			wall, ok1 := tv.F[0].(*Term)
			ext, ok2 := tv.F[1].(*Term)
			if !ok1 || !ok2 || !wall.IsConst() || wall.Val>>63 == 0 {
				return nil, false
			}
			if div == 1 {
				return ext, true
			}
			return in.tb.BvBin(OpSDiv, ext, in.c64(div)), true
		}
	}
	I["(time.Time).UnixNano"] = unixOf(1)
	I["(time.Time).UnixMicro"] = unixOf(1000)
	I["(time.Time).UnixMilli"] = unixOf(1000000)
	I["(time.Time).Unix"] = unixOf(1000000000)
	I["(*time.Timer).Stop"] = func(in *Interp, th *Thread, fn *ssa.Function, args []Value, d func(Value)) (Value, bool) {
		t := timerOf(in, args[0])
		was := t.active
		t.active = false
		return in.tb.Bool(was), true
	}
	I["(*time.Timer).Reset"] = func(in *Interp, th *Thread, fn *ssa.Function, args []Value, d func(Value)) (Value, bool) {
		t := timerOf(in, args[0])
		was := t.active
		t.active = true
		t.deadline = in.tb.BvBin(OpAdd, in.clock(), args[1].(*Term))
		if t.ch != nil {
			t.ch.buf = nil // Go 1.23+ semantics: Reset drains stale values
		}
		return in.tb.Bool(was), true
	}
	for _, n := range []string{"reflect.ValueOf", "reflect.TypeOf", "internal/reflectlite.ValueOf", "encoding/json.Unmarshal", "encoding/json.Marshal", "encoding/json.MarshalIndent", "reflect.DeepEqual"} {
		n := n
		I[n] = func(in *Interp, th *Thread, fn *ssa.Function, args []Value, d func(Value)) (Value, bool) {
			panic(unsupported{"reflection-based code is not encodable: " + n})
		}
	}
	I["internal/bytealg.MakeNoZero"] = func(in *Interp, th *Thread, fn *ssa.Function, args []Value, d func(Value)) (Value, bool) {
		n := args[0].(*Term)
		it := types.Typ[types.Int]
		return in.makeSlice(th, types.NewSlice(types.Typ[types.Uint8]), n, n, it, it), true
	}
	// reflectlite.TypeOf(x).Comparable() (used by context.WithValue): the dynamic type is known to the
	// engine, so the answer is computed from go/types; every other use of the result is unsupported.
	I["internal/reflectlite.TypeOf"] = func(in *Interp, th *Thread, fn *ssa.Function, args []Value, d func(Value)) (Value, bool) {
		iv := args[0].(IfaceV)
		if iv.T == nil {
			return IfaceV{}, true
		}
		rp := in.prog.ImportedPackage("internal/reflectlite")
		if rp == nil || rp.Type("rtype") == nil {
			panic(unsupported{"reflectlite.rtype not found"})
		}
		rt := rp.Type("rtype").Type()
		st := rt.Underlying().(*types.Struct)
		cell := in.newCell(st.Field(0).Type().(*types.Pointer).Elem())
		in.side[cell] = iv.T
		return IfaceV{T: rt, V: &StructV{[]Value{mkPtr(in.tb, cell)}}}, true
	}
	I["(internal/reflectlite.rtype).Comparable"] = func(in *Interp, th *Thread, fn *ssa.Function, args []Value, d func(Value)) (Value, bool) {
		sv := args[0].(*StructV)
		c, _ := sv.F[0].(Ptr).single()
		t, ok := in.side[c].(types.Type)
		if !ok {
			panic(unsupported{"reflectlite type of unknown origin"})
		}
		return in.tb.Bool(types.Comparable(t)), true
	}
	for _, m := range []string{"Elem", "String", "Kind", "Name", "PkgPath", "Size", "Implements", "AssignableTo"} {
		m := m
		I["(internal/reflectlite.rtype)."+m] = func(in *Interp, th *Thread, fn *ssa.Function, args []Value, d func(Value)) (Value, bool) {
			panic(unsupported{"reflection-based code is not encodable: reflectlite.rtype." + m})
		}
	}
}

func (in *Interp) lookupMethodByName(t types.Type, name string) *ssa.Function {
	ms := in.prog.MethodSets.MethodSet(t)
	for i := 0; i < ms.Len(); i++ {
		if ms.At(i).Obj().Name() == name {
			return in.prog.MethodValue(ms.At(i))
		}
	}
	panic(unsupported{"method " + name + " not found on " + t.String()})
}

// ---- unique.Make: interning table (init-time entries persist across paths) ----

type uniqEntry struct {
	t types.Type
	v Value
	c *Cell
}

func registerUnique() {
	{
		intrinsics["unique.Make"] = func(in *Interp, th *Thread, fn *ssa.Function, args []Value, d func(Value)) (Value, bool) {
			t := fn.Signature.Params().At(0).Type()
			lookup := func(list []uniqEntry) *Cell {
				for _, e := range list {
					if !types.Identical(e.t, t) {
						continue
					}
					if in.decide(in.valEq(e.v, args[0])) {
						return e.c
					}
				}
				return nil
			}
			c := lookup(in.uniqInit)
			if c == nil {
				c = lookup(in.uniqPath)
			}
			if c == nil {
				c = in.newCell(t)
				in.storeCell(c, args[0])
				if in.inInit {
					in.uniqInit = append(in.uniqInit, uniqEntry{t, args[0], c})
				} else {
					in.uniqPath = append(in.uniqPath, uniqEntry{t, args[0], c})
				}
			}
			return &StructV{[]Value{mkPtr(in.tb, c)}}, true
		}
	}
}

// unicode.To on a symbolic rune: the case tables are static data of the standard library; instead of
// forking through the binary search over ~300 ranges the engine builds one ite-chain term from the
// same table (unicode.CaseRanges of the Go release the engine is built with, which is the release
// whose sources are executed).
func registerUnicode() {
	intrinsics["unicode.To"] = func(in *Interp, th *Thread, fn *ssa.Function, args []Value, d func(Value)) (Value, bool) {
		cs, r := args[0].(*Term), args[1].(*Term)
		if !cs.IsConst() {
			return nil, false
		}
		_case := int(sext(cs.Val, 64))
		if r.IsConst() {
			return in.tb.Const(32, uint64(uint32(unicode.To(_case, rune(int32(r.Val)))))), true
		}
		if _case < 0 || _case >= unicode.MaxCase {
			return in.tb.Const(32, uint64(unicode.ReplacementChar)), true
		}
		in.note("table: unicode.CaseRanges as ite-chain")
		tb := in.tb
		res := r
		c32 := func(v int64) *Term { return tb.Const(32, uint64(uint32(v))) }
		for i := len(unicode.CaseRanges) - 1; i >= 0; i-- {
			cr := unicode.CaseRanges[i]
			inR := tb.And(tb.BvCmp(OpSLe, c32(int64(cr.Lo)), r), tb.BvCmp(OpSLe, r, c32(int64(cr.Hi))))
			delta := cr.Delta[_case]
			var v *Term
			if delta > unicode.MaxRune {
				// UpperLower: alternating sequence starting with an upper case letter
				off := tb.BvBin(OpSub, r, c32(int64(cr.Lo)))
				off = tb.BvBin(OpBAnd, off, c32(^int64(1)))
				off = tb.BvBin(OpBOr, off, c32(int64(_case&1)))
				v = tb.BvBin(OpAdd, c32(int64(cr.Lo)), off)
			} else {
				v = tb.BvBin(OpAdd, r, c32(int64(delta)))
			}
			res = tb.Ite(inR, v, res)
		}
		return res, true
	}
}
