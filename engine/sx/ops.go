package sx

import (
	"fmt"
	"go/constant"
	"go/token"
	"go/types"
	"math"

	"golang.org/x/tools/go/ssa"
)

func constantBool(c *ssa.Const) bool     { return constant.BoolVal(c.Value) }
func constantString(c *ssa.Const) string {
	if c.Value.Kind() == constant.String {
		return constant.StringVal(c.Value)
	}
	// rune/int constant converted to string
	return string(rune(c.Int64()))
}
func constantUint(c *ssa.Const) uint64 {
	v := constant.ToInt(c.Value)
	if u, ok := constant.Uint64Val(v); ok {
		return u
	}
	i, _ := constant.Int64Val(v)
	return uint64(i)
}

func (in *Interp) c64(v uint64) *Term { return in.tb.Const(64, v) }

// toInt64 widens an integer term of Go type t to BV64 (sign- or zero-extending).
func (in *Interp) toInt64(x *Term, t types.Type) *Term {
	if x.Sort.W == 64 {
		return x
	}
	if isSigned(t) {
		return in.tb.SExt(64, x)
	}
	return in.tb.ZExt(64, x)
}

// ---- obligations for run-time panics ----

// mustNot records that cond must not hold here (a run-time panic would occur); execution
// continues assuming !cond.
func (in *Interp) mustNot(th *Thread, cond *Term, what string) {
	if cond.IsFalse() {
		return
	}
	pos := in.curPos(th)
	if in.guard != nil {
		// inside an if-converted region: the instruction only executes under in.guard
		if cond.IsTrue() {
			panic(ifconvAbort{})
		}
		in.obligs = append(in.obligs, Obligation{PC: in.tb.And(in.pc, in.guard), Cond: cond, Label: what, Kind: "panic", Pos: pos})
		in.addPC(in.tb.Implies(in.guard, in.tb.Not(cond)))
		return
	}
	if cond.IsTrue() {
		// definite run-time panic on a feasible path
		in.goPanic(th, "rt", what+" at "+pos)
		panic(rtPanicNow{})
	}
	in.obligs = append(in.obligs, Obligation{PC: in.pc, Cond: cond, Label: what, Kind: "panic", Pos: pos})
	in.addPC(in.tb.Not(cond))
}

type ifconvAbort struct{}

type rtPanicNow struct{}

// ---- binary operations ----

func (in *Interp) binop(th *Thread, op token.Token, xt types.Type, xv, yv Value, yt types.Type) Value {
	tb := in.tb
	switch x := xv.(type) {
	case *Term:
		y, ok := yv.(*Term)
		if !ok {
			panic(fmt.Sprintf("internal: binop %v on %T,%T", op, xv, yv))
		}
		switch x.Sort.K {
		case SBool:
			switch op {
			case token.EQL:
				return tb.Eq(x, y)
			case token.NEQ:
				return tb.Not(tb.Eq(x, y))
			case token.AND, token.LAND:
				return tb.And(x, y)
			case token.OR, token.LOR:
				return tb.Or(x, y)
			}
		case SBV:
			return in.intBinop(th, op, xt, x, y, yt)
		case SFP:
			switch op {
			case token.ADD:
				return tb.FBin(OpFAdd, x, y)
			case token.SUB:
				return tb.FBin(OpFSub, x, y)
			case token.MUL:
				return tb.FBin(OpFMul, x, y)
			case token.QUO:
				return tb.FBin(OpFDiv, x, y)
			case token.EQL:
				return tb.FCmp(OpFEq, x, y)
			case token.NEQ:
				return tb.Not(tb.FCmp(OpFEq, x, y))
			case token.LSS:
				return tb.FCmp(OpFLt, x, y)
			case token.LEQ:
				return tb.FCmp(OpFLe, x, y)
			case token.GTR:
				return tb.FCmp(OpFLt, y, x)
			case token.GEQ:
				return tb.FCmp(OpFLe, y, x)
			}
		}
	case *StrV:
		y := yv.(*StrV)
		switch op {
		case token.ADD:
			return in.strConcat(x, y)
		case token.EQL:
			return in.strEq(x, y)
		case token.NEQ:
			return tb.Not(in.strEq(x, y))
		case token.LSS:
			return in.strLess(x, y, false)
		case token.LEQ:
			return in.strLess(x, y, true)
		case token.GTR:
			return in.strLess(y, x, false)
		case token.GEQ:
			return in.strLess(y, x, true)
		}
	case ComplexV:
		y := yv.(ComplexV)
		a, b := complex(x.Re, x.Im), complex(y.Re, y.Im)
		var r complex128
		switch op {
		case token.ADD:
			r = a + b
		case token.SUB:
			r = a - b
		case token.MUL:
			r = a * b
		case token.QUO:
			r = a / b
		case token.EQL:
			return tb.Bool(a == b)
		case token.NEQ:
			return tb.Bool(a != b)
		}
		return ComplexV{real(r), imag(r)}
	}
	switch op {
	case token.EQL:
		return in.valEq(xv, yv)
	case token.NEQ:
		return tb.Not(in.valEq(xv, yv))
	}
	panic(unsupported{fmt.Sprintf("binop %v on %T,%T", op, xv, yv)})
}

func (in *Interp) intBinop(th *Thread, op token.Token, xt types.Type, x, y *Term, yt types.Type) Value {
	tb := in.tb
	signed := isSigned(xt)
	switch op {
	case token.ADD:
		return tb.BvBin(OpAdd, x, y)
	case token.SUB:
		return tb.BvBin(OpSub, x, y)
	case token.MUL:
		return tb.BvBin(OpMul, x, y)
	case token.QUO, token.REM:
		in.mustNot(th, tb.Eq(y, tb.Const(y.Sort.W, 0)), "integer divide by zero")
		if signed {
			if op == token.QUO {
				return tb.BvBin(OpSDiv, x, y)
			}
			return tb.BvBin(OpSRem, x, y)
		}
		if op == token.QUO {
			return tb.BvBin(OpUDiv, x, y)
		}
		return tb.BvBin(OpURem, x, y)
	case token.AND:
		return tb.BvBin(OpBAnd, x, y)
	case token.OR:
		return tb.BvBin(OpBOr, x, y)
	case token.XOR:
		return tb.BvBin(OpBXor, x, y)
	case token.AND_NOT:
		return tb.BvBin(OpBAnd, x, tb.BvNot(y))
	case token.SHL, token.SHR:
		// shift count: y of its own type; negative signed count panics
		if isSigned(yt) {
			in.mustNot(th, tb.BvCmp(OpSLt, y, tb.Const(y.Sort.W, 0)), "negative shift amount")
		}
		w := x.Sort.W
		// normalise count to width of x, saturating
		var cnt *Term
		if y.Sort.W > w {
			big := tb.BvCmp(OpULe, tb.Const(y.Sort.W, uint64(w)), y)
			cnt = tb.Ite(big, tb.Const(w, uint64(w)), tb.Extract(w-1, 0, y))
		} else {
			cnt = tb.ZExt(w, y)
		}
		if op == token.SHL {
			return tb.BvBin(OpShl, x, cnt)
		}
		if signed {
			return tb.BvBin(OpAShr, x, cnt)
		}
		return tb.BvBin(OpLShr, x, cnt)
	case token.EQL:
		return tb.Eq(x, y)
	case token.NEQ:
		return tb.Not(tb.Eq(x, y))
	case token.LSS:
		if signed {
			return tb.BvCmp(OpSLt, x, y)
		}
		return tb.BvCmp(OpULt, x, y)
	case token.LEQ:
		if signed {
			return tb.BvCmp(OpSLe, x, y)
		}
		return tb.BvCmp(OpULe, x, y)
	case token.GTR:
		if signed {
			return tb.BvCmp(OpSLt, y, x)
		}
		return tb.BvCmp(OpULt, y, x)
	case token.GEQ:
		if signed {
			return tb.BvCmp(OpSLe, y, x)
		}
		return tb.BvCmp(OpULe, y, x)
	}
	panic(unsupported{"int binop " + op.String()})
}

// valEq: equality of arbitrary comparable values as a term.
func (in *Interp) valEq(a, b Value) *Term {
	tb := in.tb
	switch x := a.(type) {
	case *Term:
		y := b.(*Term)
		if x.Sort.K == SFP {
			return tb.FCmp(OpFEq, x, y)
		}
		return tb.Eq(x, y)
	case *StrV:
		return in.strEq(x, b.(*StrV))
	case Ptr:
		y, ok := b.(Ptr)
		if !ok {
			panic(unsupported{fmt.Sprintf("compare pointer with %T", b)})
		}
		r := tb.False
		for _, xa := range x.Alts {
			for _, ya := range y.Alts {
				if xa.C == ya.C {
					r = tb.Or(r, tb.And(xa.G, ya.G))
				}
			}
		}
		return r
	case *StructV:
		y := b.(*StructV)
		r := tb.True
		for i := range x.F {
			r = tb.And(r, in.valEq(x.F[i], y.F[i]))
		}
		return r
	case *ArrayV:
		y := b.(*ArrayV)
		r := tb.True
		for i := range x.E {
			r = tb.And(r, in.valEq(x.E[i], y.E[i]))
		}
		return r
	case IfaceV:
		y, ok := b.(IfaceV)
		if !ok {
			panic(unsupported{fmt.Sprintf("compare iface with %T", b)})
		}
		if x.T == nil || y.T == nil {
			return tb.Bool(x.T == nil && y.T == nil)
		}
		if !types.Identical(x.T, y.T) {
			return tb.False
		}
		if !types.Comparable(x.T) {
			panic(unsupported{"comparing uncomparable dynamic type " + x.T.String()})
		}
		return in.valEq(x.V, y.V)
	case *FuncV:
		y := b.(*FuncV)
		return tb.Bool(x == nil && y == nil || x == y)
	case *MapObj:
		return tb.Bool(x == b.(*MapObj))
	case *ChanObj:
		return tb.Bool(x == b.(*ChanObj))
	case SliceV:
		y := b.(SliceV)
		return tb.Bool(x.Arr == nil && y.Arr == nil) // only nil comparisons are legal
	case ComplexV:
		return tb.Bool(x == b.(ComplexV))
	}
	panic(unsupported{fmt.Sprintf("equality on %T", a)})
}

// ---- unary ----

func (in *Interp) unop(th *Thread, x *ssa.UnOp, v Value) Value {
	tb := in.tb
	switch x.Op {
	case token.MUL: // load
		return in.load(th, v)
	case token.NOT:
		return tb.Not(v.(*Term))
	case token.SUB:
		switch t := v.(type) {
		case *Term:
			if t.Sort.K == SFP {
				return tb.FUn(OpFNeg, t, 0)
			}
			return tb.BvNeg(t)
		case ComplexV:
			return ComplexV{-t.Re, -t.Im}
		}
	case token.XOR:
		return tb.BvNot(v.(*Term))
	}
	panic(unsupported{"unop " + x.Op.String()})
}

// ---- memory ----

func (in *Interp) nilGuard(p Ptr) *Term {
	g := in.tb.False
	for _, a := range p.Alts {
		if a.C == nil {
			g = in.tb.Or(g, a.G)
		}
	}
	return g
}

func (in *Interp) load(th *Thread, pv Value) Value {
	p, ok := pv.(Ptr)
	if !ok {
		panic(fmt.Sprintf("internal: load through %T", pv))
	}
	in.mustNot(th, in.nilGuard(p), "nil pointer dereference")
	var res Value
	first := true
	for i := len(p.Alts) - 1; i >= 0; i-- {
		a := p.Alts[i]
		if a.C == nil {
			continue
		}
		v := in.loadCell(a.C)
		if first {
			res, first = v, false
			continue
		}
		res = in.iteOrFork(a.G, v, res)
	}
	if first {
		panic(rtPanicNow{})
	}
	return res
}

// iteOrFork merges, falling back to a decision when the values cannot be merged.
func (in *Interp) iteOrFork(g *Term, a, b Value) (res Value) {
	defer func() {
		if r := recover(); r != nil {
			if _, ok := r.(cannotMerge); ok {
				if in.decide(g) {
					res = a
				} else {
					res = b
				}
				return
			}
			panic(r)
		}
	}()
	return in.ite(g, a, b)
}

func (in *Interp) store(th *Thread, pv Value, v Value) {
	p, ok := pv.(Ptr)
	if !ok {
		panic(fmt.Sprintf("internal: store through %T", pv))
	}
	in.mustNot(th, in.nilGuard(p), "nil pointer dereference")
	if c, ok := p.single(); ok {
		in.storeCell(c, v)
		return
	}
	for _, a := range p.Alts {
		if a.C == nil {
			continue
		}
		old := in.loadCell(a.C)
		in.storeCell(a.C, in.iteOrFork(a.G, v, old))
	}
}

func (in *Interp) fieldAddr(th *Thread, p Ptr, f int) Ptr {
	in.mustNot(th, in.nilGuard(p), "nil pointer dereference")
	var out []PtrAlt
	for _, a := range p.Alts {
		if a.C == nil {
			continue
		}
		out = append(out, PtrAlt{a.G, a.C.Kids[f]})
	}
	if len(out) == 1 {
		out[0].G = in.tb.True
	}
	return Ptr{out}
}

// elemPtr builds a pointer to element idx (BV64, array coordinates) of arr, for idx in [lo,hi).
func (in *Interp) elemPtr(arr *Cell, idx *Term, lo, hi int) Ptr {
	tb := in.tb
	if idx.IsConst() {
		if idx.Val >= uint64(arr.N) {
			if in.guard != nil {
				panic(ifconvAbort{}) // speculative out-of-range access inside an if-converted region
			}
			panic(unsupported{"internal: constant index out of range after bounds check"})
		}
		return mkPtr(tb, in.kid(arr, int(idx.Val)))
	}
	if hi-lo > in.cfg.MaxAlts {
		// concretise by forking
		v := in.concretize(idx, uint64(lo), uint64(hi-1))
		return mkPtr(tb, in.kid(arr, int(v)))
	}
	var out []PtrAlt
	for k := lo; k < hi; k++ {
		g := tb.Eq(idx, in.c64(uint64(k)))
		if g.IsFalse() {
			continue
		}
		out = append(out, PtrAlt{g, in.kid(arr, k)})
	}
	if len(out) == 1 {
		out[0].G = tb.True
	}
	return Ptr{out}
}

func (in *Interp) indexAddr(th *Thread, xv Value, idx *Term, it types.Type, xt types.Type) Value {
	tb := in.tb
	i := in.toInt64(idx, it)
	switch x := xv.(type) {
	case SliceV:
		in.mustNot(th, tb.Not(tb.BvCmp(OpULt, i, x.Len)), "index out of range")
		if x.Arr == nil {
			panic(rtPanicNow{})
		}
		ai := tb.BvBin(OpAdd, x.Off, i)
		lo, hi := in.rangeOf(x.Off, x.Arr.N), x.Arr.N
		return in.elemPtr(x.Arr, ai, lo, hi)
	case Ptr: // pointer to array
		in.mustNot(th, in.nilGuard(x), "nil pointer dereference")
		c, ok := x.single()
		if !ok {
			// fork on the pointer alternative
			c = in.pickAlt(x)
		}
		in.mustNot(th, tb.Not(tb.BvCmp(OpULt, i, in.c64(uint64(c.N)))), "index out of range")
		return in.elemPtr(c, i, 0, c.N)
	}
	panic(unsupported{fmt.Sprintf("indexaddr on %T", xv)})
}

// rangeOf: lower bound on element index when offset is concrete.
func (in *Interp) rangeOf(off *Term, n int) int {
	if off.IsConst() {
		return int(off.Val)
	}
	return 0
}

// pickAlt forks over pointer alternatives and returns the chosen non-nil cell.
func (in *Interp) pickAlt(p Ptr) *Cell {
	for i, a := range p.Alts {
		if i == len(p.Alts)-1 {
			in.addPC(a.G)
			if a.C == nil {
				panic(rtPanicNow{})
			}
			return a.C
		}
		if in.decide(a.G) {
			if a.C == nil {
				panic(rtPanicNow{})
			}
			return a.C
		}
	}
	panic("internal: pickAlt")
}

func (in *Interp) index(th *Thread, xv Value, idx *Term, it types.Type) Value {
	tb := in.tb
	i := in.toInt64(idx, it)
	switch x := xv.(type) {
	case *ArrayV:
		n := len(x.E)
		in.mustNot(th, tb.Not(tb.BvCmp(OpULt, i, in.c64(uint64(n)))), "index out of range")
		if i.IsConst() {
			return x.E[i.Val]
		}
		res := x.E[n-1]
		for k := n - 2; k >= 0; k-- {
			res = in.iteOrFork(tb.Eq(i, in.c64(uint64(k))), x.E[k], res)
		}
		return res
	case *StrV:
		if x.Conc {
			n := len(x.S)
			in.mustNot(th, tb.Not(tb.BvCmp(OpULt, i, in.c64(uint64(n)))), "index out of range")
			if i.IsConst() {
				return tb.Const(8, uint64(x.S[i.Val]))
			}
			if n == 0 {
				panic(rtPanicNow{})
			}
			res := tb.Const(8, uint64(x.S[n-1]))
			for k := n - 2; k >= 0; k-- {
				res = tb.Ite(tb.Eq(i, in.c64(uint64(k))), tb.Const(8, uint64(x.S[k])), res)
			}
			return res
		}
		in.mustNot(th, tb.Not(tb.BvCmp(OpULt, i, x.N)), "index out of range")
		return in.strByte(x, i)
	}
	panic(unsupported{fmt.Sprintf("index on %T", xv)})
}

func (in *Interp) strByte(x *StrV, i *Term) *Term {
	tb := in.tb
	n := len(x.B)
	if n == 0 {
		return tb.Const(8, 0)
	}
	if i.IsConst() {
		if int(i.Val) < n {
			return x.B[i.Val]
		}
		return tb.Const(8, 0)
	}
	res := x.B[n-1]
	for k := n - 2; k >= 0; k-- {
		res = tb.Ite(tb.Eq(i, in.c64(uint64(k))), x.B[k], res)
	}
	return res
}

// ---- strings ----

func (in *Interp) strLen(s *StrV) *Term {
	if s.Conc {
		return in.c64(uint64(len(s.S)))
	}
	return s.N
}

func (in *Interp) strEq(x, y *StrV) *Term {
	tb := in.tb
	if x.Conc && y.Conc {
		return tb.Bool(x.S == y.S)
	}
	xs, ys := in.symStr(x), in.symStr(y)
	r := tb.Eq(xs.N, ys.N)
	n := len(xs.B)
	if len(ys.B) < n {
		n = len(ys.B)
	}
	// lengths beyond the shorter static bound cannot be equal
	if len(xs.B) != len(ys.B) {
		r = tb.And(r, tb.BvCmp(OpULe, xs.N, in.c64(uint64(n))))
	}
	for i := 0; i < n; i++ {
		r = tb.And(r, tb.Or(tb.BvCmp(OpULe, xs.N, in.c64(uint64(i))), tb.Eq(xs.B[i], ys.B[i])))
	}
	return r
}

// strLess: lexicographic x < y (or <= when orEq).
func (in *Interp) strLess(x, y *StrV, orEq bool) *Term {
	tb := in.tb
	if x.Conc && y.Conc {
		if orEq {
			return tb.Bool(x.S <= y.S)
		}
		return tb.Bool(x.S < y.S)
	}
	xs, ys := in.symStr(x), in.symStr(y)
	n := len(xs.B)
	if len(ys.B) > n {
		n = len(ys.B)
	}
	// process from the end: res_i = result considering positions >= i given equal prefix
	var res *Term
	// at position n (past both static bounds): both ended
	res = tb.Bool(orEq)
	for i := n - 1; i >= 0; i-- {
		ci := in.c64(uint64(i))
		xEnd := tb.BvCmp(OpULe, xs.N, ci)
		yEnd := tb.BvCmp(OpULe, ys.N, ci)
		xb, yb := tb.Const(8, 0), tb.Const(8, 0)
		if i < len(xs.B) {
			xb = xs.B[i]
		}
		if i < len(ys.B) {
			yb = ys.B[i]
		}
		// if x ended: x<y iff !yEnd (or both ended -> orEq)
		// else if y ended: false
		// else compare bytes
		cmp := tb.Ite(tb.BvCmp(OpULt, xb, yb), tb.True, tb.Ite(tb.Eq(xb, yb), res, tb.False))
		res = tb.Ite(xEnd, tb.Ite(yEnd, tb.Bool(orEq), tb.True), tb.Ite(yEnd, tb.False, cmp))
	}
	return res
}

func (in *Interp) strConcat(x, y *StrV) *StrV {
	tb := in.tb
	if x.Conc && y.Conc {
		return concString(x.S + y.S)
	}
	if x.Conc && x.S == "" {
		return y
	}
	if y.Conc && y.S == "" {
		return x
	}
	xs, ys := in.symStr(x), in.symStr(y)
	n := tb.BvBin(OpAdd, xs.N, ys.N)
	if xs.N.IsConst() {
		k := int(xs.N.Val)
		bs := append(append([]*Term{}, xs.B[:k]...), ys.B...)
		return in.normStr(&StrV{B: bs, N: n})
	}
	total := len(xs.B) + len(ys.B)
	bs := make([]*Term, total)
	for i := 0; i < total; i++ {
		ci := in.c64(uint64(i))
		var xa *Term = tb.Const(8, 0)
		if i < len(xs.B) {
			xa = xs.B[i]
		}
		// y index = i - xs.N
		yi := tb.BvBin(OpSub, ci, xs.N)
		bs[i] = tb.Ite(tb.BvCmp(OpULt, ci, xs.N), xa, in.strByte(ys, yi))
	}
	return &StrV{B: bs, N: n}
}

// strSlice s[lo:hi] with BV64 bounds (already bounds-checked).
func (in *Interp) strSlice(s *StrV, lo, hi *Term) *StrV {
	tb := in.tb
	if s.Conc && lo.IsConst() && hi.IsConst() {
		return concString(s.S[lo.Val:hi.Val])
	}
	ss := in.symStr(s)
	n := tb.BvBin(OpSub, hi, lo)
	if lo.IsConst() {
		k := int(lo.Val)
		var bs []*Term
		if k <= len(ss.B) {
			bs = ss.B[k:]
		}
		if hi.IsConst() && int(hi.Val) <= len(ss.B) {
			bs = ss.B[k:hi.Val]
		}
		return in.normStr(&StrV{B: bs, N: n})
	}
	m := len(ss.B)
	bs := make([]*Term, m)
	for i := 0; i < m; i++ {
		bs[i] = in.strByte(ss, tb.BvBin(OpAdd, lo, in.c64(uint64(i))))
	}
	return &StrV{B: bs, N: n}
}

// ---- slices ----

func (in *Interp) makeSlice(th *Thread, t types.Type, ln, cp *Term, lt, ct types.Type) Value {
	tb := in.tb
	l64, c64 := in.toInt64(ln, lt), in.toInt64(cp, ct)
	in.mustNot(th, tb.BvCmp(OpSLt, l64, in.c64(0)), "makeslice: len out of range")
	in.mustNot(th, tb.BvCmp(OpSLt, c64, l64), "makeslice: cap out of range")
	elem := t.Underlying().(*types.Slice).Elem()
	var n int
	if c64.IsConst() {
		if c64.Val > 1<<26 {
			panic(unsupported{fmt.Sprintf("make of %d elements", c64.Val)})
		}
		n = int(c64.Val)
	} else {
		// symbolic capacity: find an upper bound via the solver
		n = int(in.upperBound(c64, 1<<16))
	}
	arr := in.newArrayCell(elem, n)
	return SliceV{arr, in.c64(0), l64, c64}
}

// upperBound returns the smallest power-of-two-ish bound B <= limit such that t <= B on this path,
// or fails the path as unsupported.
func (in *Interp) upperBound(t *Term, limit uint64) uint64 {
	for _, b := range []uint64{4, 8, 16, 32, 64, 128, 256, 1024, 4096, 16384, 65536} {
		if b > limit {
			break
		}
		if !in.feasible(in.tb.BvCmp(OpULt, in.c64(b), t)) {
			return b
		}
	}
	panic(unsupported{"unbounded symbolic size (add verifAssume bound)"})
}

func (in *Interp) sliceOp(th *Thread, xv Value, xt types.Type, lo, hi, max *Term) Value {
	tb := in.tb
	zero := in.c64(0)
	if lo == nil {
		lo = zero
	}
	switch x := xv.(type) {
	case *StrV:
		n := in.strLen(x)
		if hi == nil {
			hi = n
		}
		in.mustNot(th, tb.Not(tb.And(tb.BvCmp(OpULe, lo, hi), tb.BvCmp(OpULe, hi, n))), "slice bounds out of range")
		return in.strSlice(x, lo, hi)
	case SliceV:
		if hi == nil {
			hi = x.Len
		}
		cp := x.Cap
		if max != nil {
			in.mustNot(th, tb.Not(tb.And(tb.BvCmp(OpULe, hi, max), tb.BvCmp(OpULe, max, x.Cap))), "slice bounds out of range")
			cp = max
		}
		in.mustNot(th, tb.Not(tb.And(tb.BvCmp(OpULe, lo, hi), tb.BvCmp(OpULe, hi, cp))), "slice bounds out of range")
		if x.Arr == nil {
			return x
		}
		return SliceV{x.Arr, tb.BvBin(OpAdd, x.Off, lo), tb.BvBin(OpSub, hi, lo), tb.BvBin(OpSub, cp, lo)}
	case Ptr: // *array
		in.mustNot(th, in.nilGuard(x), "nil pointer dereference")
		c, ok := x.single()
		if !ok {
			c = in.pickAlt(x)
		}
		n := in.c64(uint64(c.N))
		if hi == nil {
			hi = n
		}
		cp := n
		if max != nil {
			in.mustNot(th, tb.Not(tb.And(tb.BvCmp(OpULe, hi, max), tb.BvCmp(OpULe, max, n))), "slice bounds out of range")
			cp = max
		}
		in.mustNot(th, tb.Not(tb.And(tb.BvCmp(OpULe, lo, hi), tb.BvCmp(OpULe, hi, cp))), "slice bounds out of range")
		return SliceV{c, lo, tb.BvBin(OpSub, hi, lo), tb.BvBin(OpSub, cp, lo)}
	}
	panic(unsupported{fmt.Sprintf("slice of %T", xv)})
}

func (in *Interp) sliceToArrayPtr(th *Thread, s SliceV, n int) Value {
	tb := in.tb
	in.mustNot(th, tb.BvCmp(OpULt, s.Len, in.c64(uint64(n))), "slice to array pointer: length too short")
	if s.Arr == nil {
		return nilPtr(tb)
	}
	if !s.Off.IsConst() {
		panic(unsupported{"slice-to-array-pointer with symbolic offset"})
	}
	if s.Off.Val == 0 && s.Arr.N == n {
		return mkPtr(tb, s.Arr)
	}
	panic(unsupported{"slice-to-array-pointer on sub-array"})
}

// sliceElem returns the pointer to element i (BV64, slice coordinates, in range) of s.
func (in *Interp) sliceElem(s SliceV, i *Term) Ptr {
	ai := in.tb.BvBin(OpAdd, s.Off, i)
	return in.elemPtr(s.Arr, ai, in.rangeOf(s.Off, s.Arr.N), s.Arr.N)
}

// concLen forks until the term is concrete within [0,max].
func (in *Interp) concLen(t *Term, max int) int {
	if t.IsConst() {
		return int(t.Val)
	}
	return int(in.concretize(t, 0, uint64(max)))
}

// sliceGet reads s[i] for concrete i without bounds check.
func (in *Interp) sliceGetC(s SliceV, i int) Value {
	if s.Off.IsConst() {
		k := int(s.Off.Val) + i
		if s.Arr.Kids == nil || s.Arr.Kids[k] == nil {
			return in.zero(s.Arr.ElemT)
		}
		return in.loadCell(s.Arr.Kids[k])
	}
	p := in.sliceElem(s, in.c64(uint64(i)))
	return in.load(nil, p)
}

// ---- type assertion ----

func (in *Interp) typeAssert(th *Thread, x *ssa.TypeAssert, v IfaceV) Value {
	tb := in.tb
	at := x.AssertedType
	var ok bool
	var res Value
	if types.IsInterface(at) {
		if v.T != nil {
			ok = types.Implements(v.T, at.Underlying().(*types.Interface))
			// methods with unexported names from other packages are handled by Implements
		}
		res = v
		if !ok {
			res = IfaceV{}
		}
	} else {
		ok = v.T != nil && types.Identical(v.T, at)
		if ok {
			res = v.V
		} else {
			res = in.zero(at)
		}
	}
	if x.CommaOk {
		return TupleV{res, tb.Bool(ok)}
	}
	if !ok {
		dyn := "nil"
		if v.T != nil {
			dyn = v.T.String()
		}
		in.goPanic(th, "typeassert", fmt.Sprintf("interface conversion: interface is %s, not %s", dyn, at))
		panic(rtPanicNow{})
	}
	return res
}

// ---- conversion ----

func (in *Interp) convert(th *Thread, v Value, from, to types.Type) Value {
	tb := in.tb
	fu, tu := under(from), under(to)
	switch x := v.(type) {
	case *Term:
		tbasic, ok := tu.(*types.Basic)
		if !ok {
			break
		}
		if tbasic.Info()&types.IsString != 0 {
			// integer -> string (rune)
			if x.IsConst() {
				r := rune(sext(x.Val, x.Sort.W))
				if x.Sort.W == 64 && (int64(x.Val) > 0x10FFFF || int64(x.Val) < 0) {
					r = 0xFFFD
				}
				return concString(string(r))
			}
			return in.runeToStr(x)
		}
		if tbasic.Kind() == types.UnsafePointer {
			panic(unsupported{"uintptr -> unsafe.Pointer"})
		}
		ts, ok := sortOfBasic(tbasic, nil)
		if !ok {
			if tbasic.Info()&types.IsComplex != 0 && x.IsConst() {
				return ComplexV{fval(x), 0}
			}
			break
		}
		switch {
		case x.Sort.K == SBV && ts.K == SBV:
			if ts.W <= x.Sort.W {
				return tb.Extract(ts.W-1, 0, x)
			}
			if isSigned(from) {
				return tb.SExt(ts.W, x)
			}
			return tb.ZExt(ts.W, x)
		case x.Sort.K == SBV && ts.K == SFP:
			return tb.IntToFP(ts.W, x, isSigned(from))
		case x.Sort.K == SFP && ts.K == SFP:
			return tb.FToFP(ts.W, x)
		case x.Sort.K == SFP && ts.K == SBV:
			return in.floatToInt(x, ts.W, isSigned(to))
		case x.Sort.K == SBool && ts.K == SBool:
			return x
		}
	case *StrV:
		switch t := tu.(type) {
		case *types.Basic:
			if t.Info()&types.IsString != 0 {
				return x
			}
		case *types.Slice:
			eb, _ := t.Elem().Underlying().(*types.Basic)
			if eb != nil && eb.Kind() == types.Uint8 {
				return in.strToBytes(x, t.Elem())
			}
			if eb != nil && eb.Kind() == types.Int32 {
				if x.Conc {
					rs := []rune(x.S)
					arr := in.newArrayCell(t.Elem(), len(rs))
					for i, r := range rs {
						in.storeCell(in.kid(arr, i), tb.Const(32, uint64(r)))
					}
					n := in.c64(uint64(len(rs)))
					return SliceV{arr, in.c64(0), n, n}
				}
				panic(unsupported{"[]rune(symbolic string)"})
			}
		}
	case SliceV:
		if tb2, ok := tu.(*types.Basic); ok && tb2.Info()&types.IsString != 0 {
			fs := fu.(*types.Slice)
			eb := fs.Elem().Underlying().(*types.Basic)
			if eb.Kind() == types.Uint8 {
				return in.bytesToStr(x)
			}
			if eb.Kind() == types.Int32 {
				n := in.concLen(x.Len, 1<<16)
				rs := make([]rune, n)
				for i := 0; i < n; i++ {
					e := in.sliceGetC(x, i).(*Term)
					if !e.IsConst() {
						panic(unsupported{"string([]rune) with symbolic runes"})
					}
					rs[i] = rune(int32(e.Val))
				}
				return concString(string(rs))
			}
		}
		if _, ok := tu.(*types.Slice); ok {
			return x
		}
		if _, ok := tu.(*types.Array); ok {
			// slice to array conversion
			n := int(tu.(*types.Array).Len())
			in.mustNot(th, tb.BvCmp(OpULt, x.Len, in.c64(uint64(n))), "slice to array: length too short")
			e := make([]Value, n)
			for i := range e {
				e[i] = in.sliceGetC(x, i)
			}
			return &ArrayV{e}
		}
	case Ptr:
		// pointer <-> unsafe.Pointer <-> pointer: identity on (cell) representation
		if _, ok := tu.(*types.Pointer); ok {
			return x
		}
		if b, ok := tu.(*types.Basic); ok && b.Kind() == types.UnsafePointer {
			return x
		}
		if b, ok := tu.(*types.Basic); ok && b.Kind() == types.Uintptr {
			if c, ok := x.single(); ok {
				if c == nil {
					return in.c64(0)
				}
				return in.c64(uint64(0xc000000000) + uint64(c.ID)*64)
			}
			panic(unsupported{"symbolic pointer to uintptr"})
		}
	case ComplexV:
		return x
	}
	panic(unsupported{fmt.Sprintf("convert %T from %s to %s", v, from, to)})
}

// floatToInt models amd64 conversions (CVTTSD2SQ / CVTTSD2SL and Go's unsigned sequences).
func (in *Interp) floatToInt(x *Term, w int, signed bool) *Term {
	tb := in.tb
	if x.IsConst() {
		f := fval(x)
		var r uint64
		if x.Sort.W == 32 {
			f32 := float32(f)
			switch {
			case signed && w == 64:
				r = uint64(int64(f32))
			case signed && w == 32:
				r = uint64(int32(f32))
			case signed && w == 16:
				r = uint64(int16(f32))
			case signed && w == 8:
				r = uint64(int8(f32))
			case !signed && w == 64:
				r = uint64(f32)
			case !signed && w == 32:
				r = uint64(uint32(f32))
			case !signed && w == 16:
				r = uint64(uint16(f32))
			default:
				r = uint64(uint8(f32))
			}
		} else {
			switch {
			case signed && w == 64:
				r = uint64(int64(f))
			case signed && w == 32:
				r = uint64(int32(f))
			case signed && w == 16:
				r = uint64(int16(f))
			case signed && w == 8:
				r = uint64(int8(f))
			case !signed && w == 64:
				r = uint64(f)
			case !signed && w == 32:
				r = uint64(uint32(f))
			case !signed && w == 16:
				r = uint64(uint16(f))
			default:
				r = uint64(uint8(f))
			}
		}
		return tb.Const(w, r)
	}
	in.note("float->int conversion on symbolic value (amd64 semantics modelled)")
	fw := x.Sort.W
	cvt := func(v *Term, bitsW int) *Term { // CVTTSx2SI with bitsW-wide destination
		lim := math.Ldexp(1, bitsW-1)
		inr := tb.And(tb.FCmp(OpFLe, tb.FConst(fw, -lim), v), tb.FCmp(OpFLt, v, tb.FConst(fw, lim)))
		return tb.Ite(inr, tb.FToBVRaw(bitsW, v, true), tb.Const(bitsW, uint64(1)<<uint(bitsW-1)))
	}
	if signed {
		if w == 64 {
			return cvt(x, 64)
		}
		return tb.Extract(w-1, 0, cvt(x, 32))
	}
	switch w {
	case 64:
		two63 := tb.FConst(fw, math.Ldexp(1, 63))
		small := tb.FCmp(OpFLt, x, two63)
		hi := tb.BvBin(OpBXor, cvt(tb.FBin(OpFSub, x, two63), 64), tb.Const(64, 1<<63))
		return tb.Ite(small, cvt(x, 64), hi)
	case 32:
		return tb.Extract(31, 0, cvt(x, 64))
	default:
		return tb.Extract(w-1, 0, cvt(x, 32))
	}
}

func (in *Interp) strToBytes(s *StrV, elem types.Type) SliceV {
	tb := in.tb
	if s.Conc {
		n := len(s.S)
		arr := in.newArrayCell(elem, n)
		for i := 0; i < n; i++ {
			if s.S[i] != 0 {
				in.storeCell(in.kid(arr, i), tb.Const(8, uint64(s.S[i])))
			}
		}
		l := in.c64(uint64(n))
		return SliceV{arr, in.c64(0), l, l}
	}
	n := len(s.B)
	arr := in.newArrayCell(elem, n)
	for i := 0; i < n; i++ {
		in.storeCell(in.kid(arr, i), s.B[i])
	}
	return SliceV{arr, in.c64(0), s.N, s.N}
}

func (in *Interp) bytesToStr(x SliceV) *StrV {
	if x.Arr == nil {
		return concString("")
	}
	if x.Len.IsConst() && x.Off.IsConst() {
		n := int(x.Len.Val)
		bs := make([]*Term, n)
		for i := range bs {
			bs[i] = in.sliceGetC(x, i).(*Term)
		}
		return in.normStr(&StrV{B: bs, N: x.Len})
	}
	// symbolic length: static bound = remaining array capacity
	off := 0
	if x.Off.IsConst() {
		off = int(x.Off.Val)
	}
	max := x.Arr.N - off
	if max > in.cfg.MaxAlts {
		n := in.concLen(x.Len, max)
		bs := make([]*Term, n)
		for i := range bs {
			bs[i] = in.sliceGetC(x, i).(*Term)
		}
		return in.normStr(&StrV{B: bs, N: in.c64(uint64(n))})
	}
	bs := make([]*Term, max)
	for i := range bs {
		if x.Off.IsConst() {
			bs[i] = in.sliceGetC(x, i).(*Term)
		} else {
			// guarded read: positions beyond len are don't-care; avoid out-of-array reads
			idx := in.tb.BvBin(OpAdd, x.Off, in.c64(uint64(i)))
			res := in.tb.Const(8, 0)
			for k := x.Arr.N - 1; k >= 0; k-- {
				var ev *Term
				if x.Arr.Kids == nil || x.Arr.Kids[k] == nil {
					ev = in.tb.Const(8, 0)
				} else {
					ev = in.loadCell(x.Arr.Kids[k]).(*Term)
				}
				res = in.tb.Ite(in.tb.Eq(idx, in.c64(uint64(k))), ev, res)
			}
			bs[i] = res
		}
	}
	return &StrV{B: bs, N: x.Len}
}
