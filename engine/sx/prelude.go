package sx

// PreludeSrc is injected (by overlay) next to each harness file. %PKG% is replaced by the package name.
// Under the engine every verif* function is intercepted; the bodies below are the native twins used
// by `go test` replay.
const PreludeSrc = `//go:build verif

package %PKG%

import (
	"encoding/hex"
	"encoding/json"
	"fmt"
	"math"
	"os"
	"reflect"
	"strconv"
	"unsafe"
)

type verifNondet struct {
	Name  string ` + "`json:\"name\"`" + `
	Kind  string ` + "`json:\"kind\"`" + `
	Value string ` + "`json:\"value\"`" + `
}

var verifVec map[string]string
var verifSeq = map[string]int{}

type verifStop struct{}

func verifLoad() {
	verifVec = map[string]string{}
	verifSeq = map[string]int{}
	p := os.Getenv("VERIF_REPLAY")
	if p == "" {
		return
	}
	data, err := os.ReadFile(p)
	if err != nil {
		panic(err)
	}
	var doc struct {
		Nondets []verifNondet ` + "`json:\"nondets\"`" + `
	}
	if err := json.Unmarshal(data, &doc); err != nil {
		panic(err)
	}
	for _, n := range doc.Nondets {
		verifVec[n.Name] = n.Value
	}
}

func verifNext(name string) string {
	k := fmt.Sprintf("%s#%d", name, verifSeq[name])
	verifSeq[name]++
	return verifVec[k]
}

func verifU64(name string) uint64 {
	s := verifNext(name)
	if s == "" {
		return 0
	}
	v, _ := strconv.ParseUint(s, 10, 64)
	return v
}

func verifInt64(name string) int64     { return int64(verifU64(name)) }
func verifInt32(name string) int32     { return int32(verifU64(name)) }
func verifInt16(name string) int16     { return int16(verifU64(name)) }
func verifInt8(name string) int8       { return int8(verifU64(name)) }
func verifInt(name string) int         { return int(verifU64(name)) }
func verifUint64(name string) uint64   { return verifU64(name) }
func verifUint32(name string) uint32   { return uint32(verifU64(name)) }
func verifUint16(name string) uint16   { return uint16(verifU64(name)) }
func verifUint8(name string) uint8     { return uint8(verifU64(name)) }
func verifUint(name string) uint       { return uint(verifU64(name)) }
func verifBool(name string) bool       { return verifU64(name) != 0 }
func verifFloat64(name string) float64 { return math.Float64frombits(verifU64(name)) }
func verifFloat32(name string) float32 { return math.Float32frombits(uint32(verifU64(name))) }

func verifBytes(name string, max int) []byte {
	b, _ := hex.DecodeString(verifNext(name))
	out := make([]byte, len(b), max)
	copy(out, b)
	return out
}

func verifString(name string, max int) string {
	b, _ := hex.DecodeString(verifNext(name))
	return string(b)
}

func verifChoice(name string, n int) int { return int(verifU64(name)) }

func verifAssume(c bool) {
	if !c {
		fmt.Println("VERIF-ASSUME-FAIL")
		panic(verifStop{})
	}
}

func verifAssert(c bool, label string) {
	if !c {
		fmt.Println("VERIF-ASSERT-FAIL " + label)
	}
}

func verifAssertKF(c bool, label string, kf string, kfCond bool) {
	if !c {
		fmt.Println("VERIF-ASSERT-FAIL " + label)
	}
}

func verifCover(label string)                { fmt.Println("VERIF-COVER " + label) }
func verifObserveInt(label string, v int64)  { fmt.Printf("VERIF-OBS %s=%d;\n", label, v) }
func verifObserveStr(label string, v string) { fmt.Printf("VERIF-OBS %s=%q;\n", label, v) }
func verifYield()                            {}
func verifDaemon()                           {}
func verifSymbolic() bool                    { return false }
func verifAdvance(d int64)                   {}
func verifHoldTimers(hold bool)              {}
func verifSimultaneousTimers(on bool)        {}
func verifNow() int64                        { return 0 }
func verifAtQuiescence(f func())             {}
func verifBlockedThreads() int               { return 0 }
func verifUF1(name string, x float64) float64 { return x }
func verifUF2(name string, x, y float64) float64 { return x }

// verifSameArray reports whether two byte slices are views of the same backing array (both views must
// extend to the end of the array's capacity, which holds for slices obtained by re-slicing).
func verifSameArray(a, b []byte) bool {
	if cap(a) == 0 || cap(b) == 0 {
		return false
	}
	return &a[:cap(a)][cap(a)-1] == &b[:cap(b)][cap(b)-1]
}

// verifSetField stores v into the (possibly unexported) field of the struct p points to; path is a
// dot-separated field path. It lets a harness build partial objects of other packages' types.
func verifSetField(p any, path string, v any) {
	rv := reflect.ValueOf(p).Elem()
	start := 0
	for i := 0; i <= len(path); i++ {
		if i == len(path) || path[i] == '.' {
			rv = rv.FieldByName(path[start:i])
			start = i + 1
		}
	}
	dst := reflect.NewAt(rv.Type(), unsafe.Pointer(rv.UnsafeAddr())).Elem()
	if v == nil {
		dst.Set(reflect.Zero(rv.Type()))
		return
	}
	dst.Set(reflect.ValueOf(v).Convert(rv.Type()))
}

// verifRun is the native replay entry.
func verifRun(h func()) {
	verifLoad()
	defer func() {
		if r := recover(); r != nil {
			if _, ok := r.(verifStop); ok {
				fmt.Println("VERIF-DONE")
				return
			}
			fmt.Printf("VERIF-PANIC %v\n", r)
		}
	}()
	h()
	fmt.Println("VERIF-DONE")
}

// ---- models (interpreted by the engine in place of std functions) ----

func verifComparable(v any) bool { return v == nil || reflect.TypeOf(v).Comparable() }

func verifAsAssign(err error, target any) bool {
	val := reflect.ValueOf(target)
	t := val.Type().Elem()
	if reflect.TypeOf(err).AssignableTo(t) {
		val.Elem().Set(reflect.ValueOf(err))
		return true
	}
	return false
}

func verifModel_errorsIs(err, target error) bool {
	if err == nil || target == nil {
		return err == target
	}
	return verifModel_is(err, target, verifComparable(target))
}

func verifModel_is(err, target error, cmp bool) bool {
	for {
		if cmp && verifComparable(err) && err == target {
			return true
		}
		if x, ok := err.(interface{ Is(error) bool }); ok && x.Is(target) {
			return true
		}
		switch x := err.(type) {
		case interface{ Unwrap() error }:
			err = x.Unwrap()
			if err == nil {
				return false
			}
		case interface{ Unwrap() []error }:
			for _, e := range x.Unwrap() {
				if verifModel_is(e, target, cmp) {
					return true
				}
			}
			return false
		default:
			return false
		}
	}
}

func verifModel_errorsAs(err error, target any) bool {
	if err == nil {
		return false
	}
	for {
		if verifAsAssign(err, target) {
			return true
		}
		if x, ok := err.(interface{ As(any) bool }); ok && x.As(target) {
			return true
		}
		switch x := err.(type) {
		case interface{ Unwrap() error }:
			err = x.Unwrap()
			if err == nil {
				return false
			}
		case interface{ Unwrap() []error }:
			for _, e := range x.Unwrap() {
				if e != nil && verifModel_errorsAs(e, target) {
					return true
				}
			}
			return false
		default:
			return false
		}
	}
}

func verifModel_indexByteString(s string, c byte) int {
	for i := 0; i < len(s); i++ {
		if s[i] == c {
			return i
		}
	}
	return -1
}

func verifModel_indexByte(b []byte, c byte) int {
	for i := 0; i < len(b); i++ {
		if b[i] == c {
			return i
		}
	}
	return -1
}

func verifModel_lastIndexByteString(s string, c byte) int {
	for i := len(s) - 1; i >= 0; i-- {
		if s[i] == c {
			return i
		}
	}
	return -1
}

func verifModel_lastIndexByte(s []byte, c byte) int {
	for i := len(s) - 1; i >= 0; i-- {
		if s[i] == c {
			return i
		}
	}
	return -1
}

func verifModel_countString(s string, c byte) int {
	n := 0
	for i := 0; i < len(s); i++ {
		if s[i] == c {
			n++
		}
	}
	return n
}

func verifModel_count(b []byte, c byte) int {
	n := 0
	for i := 0; i < len(b); i++ {
		if b[i] == c {
			n++
		}
	}
	return n
}

func verifModel_bytesEqual(a, b []byte) bool {
	if len(a) != len(b) {
		return false
	}
	for i := range a {
		if a[i] != b[i] {
			return false
		}
	}
	return true
}

func verifModel_bytesCompare(a, b []byte) int {
	n := len(a)
	if len(b) < n {
		n = len(b)
	}
	for i := 0; i < n; i++ {
		if a[i] != b[i] {
			if a[i] < b[i] {
				return -1
			}
			return 1
		}
	}
	if len(a) < len(b) {
		return -1
	}
	if len(a) > len(b) {
		return 1
	}
	return 0
}

func verifModel_indexString(s, sub string) int {
	n := len(sub)
	for i := 0; i+n <= len(s); i++ {
		if s[i:i+n] == sub {
			return i
		}
	}
	return -1
}

func verifModel_containsString(s, sub string) bool { return verifModel_indexString(s, sub) >= 0 }

func verifModel_index(s, sub []byte) int {
	n := len(sub)
	for i := 0; i+n <= len(s); i++ {
		if string(s[i:i+n]) == string(sub) {
			return i
		}
	}
	return -1
}
`
