package sx

// Cheap syntactic reasoning over the path condition: a set of literals known true/false and, per
// term, unsigned and signed intervals derived from comparisons against constants. Everything
// recorded is implied by the path condition, so answers are sound; "unknown" falls through to
// the solver.

type ival struct {
	ulo, uhi uint64
	slo, shi int64
	w        int
}

type facts struct {
	lits  map[*Term]bool
	ivals map[*Term]*ival
	umemo map[*Term][2]uint64
	smemo map[*Term][]uint64
}

func newFacts() *facts { return &facts{lits: map[*Term]bool{}, ivals: map[*Term]*ival{}} }

func fullIval(w int) *ival {
	return &ival{ulo: 0, uhi: mask(w), slo: -(int64(1) << uint(w-1)), shi: int64(mask(w) >> 1), w: w}
}

func (f *facts) iv(t *Term) *ival {
	if v, ok := f.ivals[t]; ok {
		return v
	}
	v := fullIval(t.Sort.W)
	f.ivals[t] = v
	return v
}

func (v *ival) norm() {
	maxS := int64(mask(v.w) >> 1)
	// if known non-negative as signed, views coincide
	if v.slo >= 0 {
		if uint64(v.slo) > v.ulo {
			v.ulo = uint64(v.slo)
		}
		if uint64(v.shi) < v.uhi {
			v.uhi = uint64(v.shi)
		}
	}
	if v.uhi <= uint64(maxS) {
		if int64(v.ulo) > v.slo {
			v.slo = int64(v.ulo)
		}
		if int64(v.uhi) < v.shi {
			v.shi = int64(v.uhi)
		}
	}
	// known negative as signed: unsigned >= 2^(w-1)
	if v.shi < 0 {
		lo := uint64(v.slo) & mask(v.w)
		hi := uint64(v.shi) & mask(v.w)
		if lo > v.ulo {
			v.ulo = lo
		}
		if hi < v.uhi {
			v.uhi = hi
		}
	}
}

// record adds the literal c (asserted with polarity pos).
func (f *facts) record(c *Term, pos bool) {
	switch c.Op {
	case OpNot:
		f.record(c.Args[0], !pos)
		return
	case OpAnd:
		if pos {
			f.record(c.Args[0], true)
			f.record(c.Args[1], true)
			return
		}
	case OpOr:
		if !pos {
			f.record(c.Args[0], false)
			f.record(c.Args[1], false)
			return
		}
	}
	f.lits[c] = pos
	if len(c.Args) != 2 {
		return
	}
	f.umemo = nil
	f.smemo = nil
	a, b := c.Args[0], c.Args[1]
	if a.Sort.K != SBV || a.Sort.W > 64 {
		return
	}
	w := a.Sort.W
	switch c.Op {
	case OpULt, OpULe, OpSLt, OpSLe:
		signed := c.Op == OpSLt || c.Op == OpSLe
		strict := c.Op == OpULt || c.Op == OpSLt
		if b.IsConst() && !a.IsConst() {
			// x < k / x <= k ; negated: x >= k / x > k
			v := f.iv(a)
			if signed {
				k := sext(b.Val, w)
				if pos {
					if strict {
						k--
					}
					if k < v.shi {
						v.shi = k
					}
				} else {
					if !strict {
						k++
					}
					if k > v.slo {
						v.slo = k
					}
				}
			} else {
				k := b.Val
				if pos {
					if strict {
						if k == 0 {
							return
						}
						k--
					}
					if k < v.uhi {
						v.uhi = k
					}
				} else {
					if !strict {
						if k == mask(w) {
							return
						}
						k++
					}
					if k > v.ulo {
						v.ulo = k
					}
				}
			}
			v.norm()
		} else if a.IsConst() && !b.IsConst() {
			// k < x / k <= x ; negated: x <= k / x < k
			v := f.iv(b)
			if signed {
				k := sext(a.Val, w)
				if pos {
					if strict {
						k++
					}
					if k > v.slo {
						v.slo = k
					}
				} else {
					if !strict {
						k--
					}
					if k < v.shi {
						v.shi = k
					}
				}
			} else {
				k := a.Val
				if pos {
					if strict {
						if k == mask(w) {
							return
						}
						k++
					}
					if k > v.ulo {
						v.ulo = k
					}
				} else {
					if !strict {
						if k == 0 {
							return
						}
						k--
					}
					if k < v.uhi {
						v.uhi = k
					}
				}
			}
			v.norm()
		}
	case OpEq:
		x, k := a, b
		if x.IsConst() {
			x, k = b, a
		}
		if !k.IsConst() || x.IsConst() {
			return
		}
		v := f.iv(x)
		if pos {
			v.ulo, v.uhi = k.Val, k.Val
			v.slo, v.shi = sext(k.Val, w), sext(k.Val, w)
		} else {
			if v.ulo == k.Val && v.ulo < mask(w) {
				v.ulo++
			}
			if v.uhi == k.Val && v.uhi > 0 {
				v.uhi--
			}
			sk := sext(k.Val, w)
			if v.slo == sk {
				v.slo++
			}
			if v.shi == sk {
				v.shi--
			}
			v.norm()
		}
	}
}

// eval returns +1 if c is implied true, -1 if implied false, 0 if unknown.
func (f *facts) eval(c *Term) int {
	if c.IsConst() {
		if c.Val == 1 {
			return 1
		}
		return -1
	}
	if v, ok := f.lits[c]; ok {
		if v {
			return 1
		}
		return -1
	}
	switch c.Op {
	case OpNot:
		return -f.eval(c.Args[0])
	case OpAnd:
		x, y := f.eval(c.Args[0]), f.eval(c.Args[1])
		if x == -1 || y == -1 {
			return -1
		}
		if x == 1 && y == 1 {
			return 1
		}
		return 0
	case OpOr:
		x, y := f.eval(c.Args[0]), f.eval(c.Args[1])
		if x == 1 || y == 1 {
			return 1
		}
		if x == -1 && y == -1 {
			return -1
		}
		return 0
	case OpIte:
		if c.Sort.K == SBool {
			g := f.eval(c.Args[0])
			if g == 1 {
				return f.eval(c.Args[1])
			}
			if g == -1 {
				return f.eval(c.Args[2])
			}
			x, y := f.eval(c.Args[1]), f.eval(c.Args[2])
			if x == y {
				return x
			}
		}
		return 0
	}
	if len(c.Args) != 2 {
		return 0
	}
	a, b := c.Args[0], c.Args[1]
	if a.Sort.K != SBV || a.Sort.W > 64 {
		return 0
	}
	w := a.Sort.W
	rng := func(t *Term) (ulo, uhi uint64, slo, shi int64, ok bool) {
		if t.IsConst() {
			s := sext(t.Val, w)
			return t.Val, t.Val, s, s, true
		}
		if v, has := f.ivals[t]; has {
			return v.ulo, v.uhi, v.slo, v.shi, true
		}
		return 0, mask(w), -(int64(1) << uint(w-1)), int64(mask(w) >> 1), false
	}
	// exact evaluation over small value sets
	if sa := f.uset(a); sa != nil {
		if sb := f.uset(b); sb != nil && len(sa)*len(sb) <= 400 {
			if r := cmpSets(c.Op, w, sa, sb); r != 0 {
				return r
			}
		}
	}
	// overflow-check idiom: x+y < x (or x+y < y) is false when the sum cannot wrap
	if (c.Op == OpULt || c.Op == OpULe) && a.Op == OpAdd && (a.Args[0] == b || a.Args[1] == b) {
		_, h0 := f.urange(a.Args[0])
		_, h1 := f.urange(a.Args[1])
		if h0 <= mask(w)-h1 {
			other := a.Args[1]
			if a.Args[1] == b {
				other = a.Args[0]
			}
			if c.Op == OpULt {
				return -1
			}
			if lo, _ := f.urange(other); lo > 0 {
				return -1
			}
		}
	}
	if (c.Op == OpULt || c.Op == OpULe) && b.Op == OpAdd && (b.Args[0] == a || b.Args[1] == a) {
		_, h0 := f.urange(b.Args[0])
		_, h1 := f.urange(b.Args[1])
		if h0 <= mask(w)-h1 {
			if c.Op == OpULe {
				return 1
			}
		}
	}
	aul, auh, asl, ash, _ := rng(a)
	bul, buh, bsl, bsh, _ := rng(b)
	// refine with structural unsigned ranges
	maxS := mask(w) >> 1
	if lo, hi := f.urange(a); true {
		if lo > aul {
			aul = lo
		}
		if hi < auh {
			auh = hi
		}
		if auh <= maxS {
			if int64(aul) > asl {
				asl = int64(aul)
			}
			if int64(auh) < ash {
				ash = int64(auh)
			}
		}
	}
	if lo, hi := f.urange(b); true {
		if lo > bul {
			bul = lo
		}
		if hi < buh {
			buh = hi
		}
		if buh <= maxS {
			if int64(bul) > bsl {
				bsl = int64(bul)
			}
			if int64(buh) < bsh {
				bsh = int64(buh)
			}
		}
	}
	switch c.Op {
	case OpULt:
		if auh < bul {
			return 1
		}
		if aul >= buh {
			return -1
		}
	case OpULe:
		if auh <= bul {
			return 1
		}
		if aul > buh {
			return -1
		}
	case OpSLt:
		if ash < bsl {
			return 1
		}
		if asl >= bsh {
			return -1
		}
	case OpSLe:
		if ash <= bsl {
			return 1
		}
		if asl > bsh {
			return -1
		}
	case OpEq:
		if auh < bul || buh < aul || ash < bsl || bsh < asl {
			return -1
		}
		if aul == auh && bul == buh && aul == bul {
			return 1
		}
	}
	return 0
}

// urange computes a sound unsigned interval for a bit-vector term from its structure, using
// the path-condition intervals at the leaves.
func (f *facts) urangeNoSet(t *Term) (lo, hi uint64) {
	if t.Sort.K != SBV || t.Sort.W > 64 {
		return 0, ^uint64(0)
	}
	if t.IsConst() {
		return t.Val, t.Val
	}
	if f.umemo == nil {
		f.umemo = map[*Term][2]uint64{}
	}
	if r, ok := f.umemo[t]; ok {
		return r[0], r[1]
	}
	w := t.Sort.W
	m := mask(w)
	lo, hi = 0, m
	sub := func(i int) (uint64, uint64) { return f.urange(t.Args[i]) }
	switch t.Op {
	case OpZExt:
		lo, hi = sub(0)
	case OpSExt:
		alo, ahi := sub(0)
		if ahi <= mask(t.Args[0].Sort.W)>>1 {
			lo, hi = alo, ahi
		}
	case OpIte:
		alo, ahi := sub(1)
		blo, bhi := sub(2)
		lo, hi = alo, ahi
		if blo < lo {
			lo = blo
		}
		if bhi > hi {
			hi = bhi
		}
	case OpExtract:
		alo, ahi := sub(0)
		if t.Y == 0 && ahi <= m {
			lo, hi = alo, ahi
		} else if t.Y > 0 {
			// value = (x >> Y) mod 2^w
			if (ahi >> uint(t.Y)) <= m {
				lo, hi = alo>>uint(t.Y), ahi>>uint(t.Y)
			}
		}
	case OpBAnd:
		_, ahi := sub(0)
		_, bhi := sub(1)
		hi = ahi
		if bhi < hi {
			hi = bhi
		}
		lo = 0
	case OpBOr, OpBXor:
		alo, ahi := sub(0)
		blo, bhi := sub(1)
		mx := ahi
		if bhi > mx {
			mx = bhi
		}
		// smallest all-ones value >= mx
		p := uint64(1)
		for p-1 < mx && p != 0 {
			p <<= 1
		}
		hi = p - 1
		if hi > m {
			hi = m
		}
		if t.Op == OpBOr {
			lo = alo
			if blo > lo {
				lo = blo
			}
		}
	case OpAdd:
		alo, ahi := sub(0)
		blo, bhi := sub(1)
		if t.Args[1].IsConst() && t.Args[1].Val > m>>1 {
			// subtraction of k = 2^w - c
			k := (m - t.Args[1].Val) + 1
			if alo >= k {
				lo, hi = alo-k, ahi-k
			}
		} else if ahi <= m-bhi {
			lo, hi = alo+blo, ahi+bhi
		}
	case OpSub:
		alo, ahi := sub(0)
		blo, bhi := sub(1)
		if alo >= bhi {
			lo, hi = alo-bhi, ahi-blo
		}
	case OpMul:
		alo, ahi := sub(0)
		blo, bhi := sub(1)
		if ahi == 0 || bhi == 0 {
			lo, hi = 0, 0
		} else if ahi <= m/bhi {
			lo, hi = alo*blo, ahi*bhi
		}
	case OpUDiv:
		alo, ahi := sub(0)
		blo, bhi := sub(1)
		if blo > 0 {
			lo, hi = alo/bhi, ahi/blo
		}
	case OpURem:
		_, ahi := sub(0)
		blo, bhi := sub(1)
		if blo > 0 {
			hi = bhi - 1
			if ahi < hi {
				hi = ahi
			}
			lo = 0
		}
	case OpLShr:
		alo, ahi := sub(0)
		if t.Args[1].IsConst() {
			k := t.Args[1].Val
			if k >= uint64(w) {
				lo, hi = 0, 0
			} else {
				lo, hi = alo>>k, ahi>>k
			}
		} else {
			lo, hi = 0, ahi
		}
	case OpShl:
		alo, ahi := sub(0)
		if t.Args[1].IsConst() {
			k := t.Args[1].Val
			if k < uint64(w) && ahi <= m>>k {
				lo, hi = alo<<k, ahi<<k
			}
		}
	case OpSDiv, OpSRem:
		alo, ahi := sub(0)
		blo, bhi := sub(1)
		if ahi <= m>>1 && bhi <= m>>1 && blo > 0 {
			if t.Op == OpSDiv {
				lo, hi = alo/bhi, ahi/blo
			} else {
				lo, hi = 0, bhi-1
				if ahi < hi {
					hi = ahi
				}
			}
		}
	case OpConcat:
		if t.Args[0].IsConst() && t.Args[0].Val == 0 {
			lo, hi = sub(1)
		}
	}
	// intersect with path-condition facts about this very term
	if v, ok := f.ivals[t]; ok {
		if v.ulo > lo {
			lo = v.ulo
		}
		if v.uhi < hi {
			hi = v.uhi
		}
	}
	if lo > hi {
		// contradictory facts (infeasible path): stay sound by giving the full range
		lo, hi = 0, m
	}
	f.umemo[t] = [2]uint64{lo, hi}
	return lo, hi
}
