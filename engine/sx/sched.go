package sx

import (
	"fmt"
	"go/types"

	"golang.org/x/tools/go/ssa"
)

type ChanObj struct {
	ID     int
	cap    int
	buf    []Value
	closed bool
	elemT  types.Type
	epoch  int
}

type selCase struct {
	ch   *ChanObj
	send bool
	val  Value
}

type parkInfo struct {
	desc    string
	enabled func() bool
	fire    func()
	// channel rendezvous information (optional)
	ch       *ChanObj
	isSend   bool
	isRecv   bool
	val      Value
	complete func(v Value, ok bool)
	sel      []selCase
	selDone  func(idx int, v Value, ok bool)
	cond     *condState // parked in Cond.Wait (phase 2)
}

func (in *Interp) newChan(cap int, elem types.Type) *ChanObj {
	in.chanSeq++
	return &ChanObj{ID: in.chanSeq, cap: cap, elemT: elem, epoch: in.epoch}
}

func (in *Interp) liveThreads() int {
	n := 0
	for _, t := range in.threads {
		if !t.done {
			n++
		}
	}
	return n
}

// visible registers a visible operation of th. In single-thread mode an enabled op fires at once.
func (in *Interp) visible(th *Thread, p *parkInfo) {
	if in.liveThreads() == 1 && len(in.activeTimers()) == 0 && p.enabled() {
		p.fire()
		return
	}
	th.parked = p
}

func (in *Interp) spawn(f Value, args []Value, daemon bool) *Thread {
	in.tseq++
	th := &Thread{id: in.tseq, daemon: daemon}
	in.threads = append(in.threads, th)
	// bottom native frame so that callValue has a caller to deliver into
	fr := &Frame{retReg: -1}
	started := false
	fr.native = func(in *Interp, t *Thread, f0 *Frame) {
		if !started {
			started = true
			in.callValue(t, f, args, -1, func(Value) {}, 0)
			return
		}
		t.frames = t.frames[:0]
		t.done = true
	}
	th.frames = []*Frame{fr}
	return th
}

// schedule is the main loop of a path: runs threads until quiescence.
func (in *Interp) schedule() {
	for {
		th := in.pick()
		if th == nil {
			return
		}
		in.cur = th
		if th.parked != nil {
			p := th.parked
			th.parked = nil
			in.protect(th, p.fire)
		}
		in.runThread(th)
	}
}

// protect runs f converting rtPanicNow into normal unwinding.
func (in *Interp) protect(th *Thread, f func()) {
	defer func() {
		if r := recover(); r != nil {
			if _, ok := r.(rtPanicNow); ok {
				return
			}
			panic(r)
		}
	}()
	f()
}

// runThread steps th until it parks or finishes.
func (in *Interp) runThread(th *Thread) {
	for !th.done && th.parked == nil {
		in.protect(th, func() {
			for !th.done && th.parked == nil {
				if in.step(th) == stDone {
					return
				}
			}
		})
	}
}

// pick chooses the next thread to run; nil at quiescence.
func (in *Interp) pick() *Thread {
	for {
		var en []*Thread
		blocked := 0
		for _, t := range in.threads {
			if t.done {
				continue
			}
			if t.parked == nil || t.parked.enabled() {
				en = append(en, t)
			} else if !t.daemon {
				blocked++
			}
		}
		if len(en) == 0 {
			// quiescence: fire the earliest timer if any
			if !in.holdTimers && in.fireNextTimer() {
				continue
			}
			if in.quiesce != nil {
				q := in.quiesce
				in.quiesce = nil
				q()
				continue
			}
			if blocked > 0 {
				var desc string
				for _, t := range in.threads {
					if !t.done && t.parked != nil && !t.daemon {
						desc += fmt.Sprintf("T%d:%s ", t.id, t.parked.desc)
					}
				}
				panic(pathEnd{"deadlock", "all threads blocked: " + desc})
			}
			return nil
		}
		if len(en) == 1 {
			return en[0]
		}
		// current thread first (continuing it is not a preemption)
		curEnabled := false
		for i, t := range en {
			if t == in.cur {
				en[0], en[i] = en[i], en[0]
				curEnabled = true
			}
		}
		if curEnabled && in.preempts >= in.cfg.Preempt {
			return en[0]
		}
		k := in.choose(len(en), "sched")
		if curEnabled && k != 0 {
			in.preempts++
		}
		in.nSched++
		return en[k]
	}
}

// ---- channels ----

func (in *Interp) parkedOn(ch *ChanObj, wantSend bool, self *Thread) []*Thread {
	var out []*Thread
	for _, t := range in.threads {
		if t == self || t.done || t.parked == nil {
			continue
		}
		p := t.parked
		if p.ch == ch && ((wantSend && p.isSend) || (!wantSend && p.isRecv)) {
			out = append(out, t)
			continue
		}
		for _, c := range p.sel {
			if c.ch == ch && c.send == wantSend {
				out = append(out, t)
				break
			}
		}
	}
	return out
}

func (in *Interp) canSend(ch *ChanObj, self *Thread) bool {
	if ch == nil {
		return false
	}
	return ch.closed || len(ch.buf) < ch.cap || len(in.parkedOn(ch, false, self)) > 0
}

func (in *Interp) canRecv(ch *ChanObj, self *Thread) bool {
	if ch == nil {
		return false
	}
	return ch.closed || len(ch.buf) > 0 || len(in.parkedOn(ch, true, self)) > 0
}

// completePeer finishes the parked operation of peer on ch.
func (in *Interp) completeRecvPeer(peer *Thread, ch *ChanObj, v Value) {
	p := peer.parked
	peer.parked = nil
	if p.isRecv && p.ch == ch {
		p.complete(v, true)
		return
	}
	for i, c := range p.sel {
		if c.ch == ch && !c.send {
			p.selDone(i, v, true)
			return
		}
	}
	panic("internal: completeRecvPeer")
}

func (in *Interp) takeFromSendPeer(peer *Thread, ch *ChanObj) Value {
	p := peer.parked
	peer.parked = nil
	if p.isSend && p.ch == ch {
		p.complete(nil, true)
		return p.val
	}
	for i, c := range p.sel {
		if c.ch == ch && c.send {
			p.selDone(i, nil, true)
			return c.val
		}
	}
	panic("internal: takeFromSendPeer")
}

func (in *Interp) doSend(th *Thread, ch *ChanObj, v Value) {
	if ch.closed {
		in.goPanic(th, "chan", "send on closed channel")
		panic(rtPanicNow{})
	}
	if len(ch.buf) == 0 {
		if rs := in.parkedOn(ch, false, th); len(rs) > 0 {
			k := in.choose(len(rs), "recvpeer")
			in.completeRecvPeer(rs[k], ch, v)
			return
		}
	}
	if len(ch.buf) < ch.cap {
		ch.buf = append(ch.buf, v)
		return
	}
	// buffer full but a receiver is at its receive operation: that receiver takes the oldest buffered
	// value (as if it had run first) and v takes the freed slot
	if rs := in.parkedOn(ch, false, th); len(rs) > 0 && len(ch.buf) > 0 {
		k := in.choose(len(rs), "recvpeer")
		head := ch.buf[0]
		ch.buf = append(append([]Value{}, ch.buf[1:]...), v)
		in.completeRecvPeer(rs[k], ch, head)
		return
	}
	panic("internal: doSend not enabled")
}

func (in *Interp) doRecv(th *Thread, ch *ChanObj) (Value, bool) {
	if len(ch.buf) > 0 {
		v := ch.buf[0]
		ch.buf = append([]Value{}, ch.buf[1:]...)
		if ss := in.parkedOn(ch, true, th); len(ss) > 0 {
			k := in.choose(len(ss), "sendpeer")
			ch.buf = append(ch.buf, in.takeFromSendPeer(ss[k], ch))
		}
		return v, true
	}
	if ss := in.parkedOn(ch, true, th); len(ss) > 0 {
		k := in.choose(len(ss), "sendpeer")
		return in.takeFromSendPeer(ss[k], ch), true
	}
	if ch.closed {
		return in.zero(ch.elemT), false
	}
	panic("internal: doRecv not enabled")
}

func (in *Interp) chanClose(th *Thread, ch *ChanObj) {
	if ch == nil {
		in.goPanic(th, "chan", "close of nil channel")
		panic(rtPanicNow{})
	}
	if ch.closed {
		in.goPanic(th, "chan", "close of closed channel")
		panic(rtPanicNow{})
	}
	ch.closed = true
}

func (in *Interp) execSend(th *Thread, fr *Frame, x *ssa.Send) {
	ch := in.get(fr, x.Chan).(*ChanObj)
	v := in.get(fr, x.X)
	fr.ip++
	p := &parkInfo{desc: "send@" + in.posStr(x.Pos()), ch: ch, isSend: true, val: v}
	p.enabled = func() bool { return in.canSend(ch, th) }
	p.fire = func() { in.doSend(th, ch, v) }
	p.complete = func(Value, bool) {}
	in.visible(th, p)
}

func (in *Interp) execRecv(th *Thread, fr *Frame, x *ssa.UnOp) {
	ch := in.get(fr, x.X).(*ChanObj)
	fr.ip++
	deliver := func(v Value, ok bool) {
		if x.CommaOk {
			in.set(fr, x, TupleV{v, in.tb.Bool(ok)})
		} else {
			in.set(fr, x, v)
		}
	}
	p := &parkInfo{desc: "recv@" + in.posStr(x.Pos()), ch: ch, isRecv: true, complete: deliver}
	p.enabled = func() bool { return in.canRecv(ch, th) }
	p.fire = func() {
		v, ok := in.doRecv(th, ch)
		deliver(v, ok)
	}
	in.visible(th, p)
}

func (in *Interp) execSelect(th *Thread, fr *Frame, x *ssa.Select) {
	tb := in.tb
	cases := make([]selCase, len(x.States))
	for i, st := range x.States {
		ch, _ := in.get(fr, st.Chan).(*ChanObj)
		cases[i] = selCase{ch: ch, send: st.Dir == types.SendOnly}
		if cases[i].send {
			cases[i].val = in.get(fr, st.Send)
		}
	}
	fr.ip++
	tt := x.Type().(*types.Tuple)
	done := func(idx int, v Value, ok bool) {
		res := make(TupleV, tt.Len())
		res[0] = in.c64(uint64(int64(idx)))
		res[1] = tb.Bool(ok)
		k := 2
		for i, st := range x.States {
			if st.Dir == types.RecvOnly {
				if i == idx && v != nil {
					res[k] = v
				} else {
					res[k] = in.zero(tt.At(k).Type())
				}
				k++
			}
		}
		in.set(fr, x, res)
	}
	ready := func() []int {
		var r []int
		for i, c := range cases {
			if c.send && in.canSend(c.ch, th) || !c.send && in.canRecv(c.ch, th) {
				r = append(r, i)
			}
		}
		return r
	}
	p := &parkInfo{desc: "select@" + in.posStr(x.Pos()), sel: cases, selDone: done}
	p.enabled = func() bool { return !x.Blocking || len(ready()) > 0 }
	p.fire = func() {
		r := ready()
		if len(r) == 0 {
			done(-1, nil, false)
			return
		}
		i := r[in.choose(len(r), "select")]
		c := cases[i]
		if c.send {
			in.doSend(th, c.ch, c.val)
			done(i, nil, false)
		} else {
			v, ok := in.doRecv(th, c.ch)
			done(i, v, ok)
		}
	}
	in.visible(th, p)
}


// ---- timers / virtual clock ----

type Timer struct {
	cell     *Cell // the *time.Timer object
	deadline *Term
	f        Value   // AfterFunc callback
	ch       *ChanObj // NewTimer channel
	active   bool
	seq      int
}

const clockStart = uint64(1700000000) * 1000000000

func (in *Interp) clock() *Term {
	if in.now == nil {
		in.now = in.c64(clockStart)
	}
	return in.now
}

func (in *Interp) activeTimers() []*Timer {
	var out []*Timer
	for _, t := range in.timers {
		if t.active {
			out = append(out, t)
		}
	}
	return out
}

func (in *Interp) fireTimer(t *Timer) {
	t.active = false
	in.note("timer fired")
	if t.f != nil {
		in.spawn(t.f, nil, false)
		return
	}
	if len(t.ch.buf) < t.ch.cap {
		t.ch.buf = append(t.ch.buf, in.timeValue(in.clock()))
	}
}

// fireNextTimer advances the clock to the earliest active deadline and fires that timer.
func (in *Interp) fireNextTimer() bool {
	act := in.activeTimers()
	if len(act) == 0 {
		return false
	}
	tb := in.tb
	best := act[0]
	for _, t := range act[1:] {
		lt := tb.BvCmp(OpSLt, t.deadline, best.deadline)
		if lt.IsConst() {
			if lt.IsTrue() {
				best = t
			}
		} else if in.decide(lt) {
			best = t
		}
	}
	later := tb.BvCmp(OpSLt, in.clock(), best.deadline)
	in.now = tb.Ite(later, best.deadline, in.clock())
	in.fireTimer(best)
	// (verifSimultaneousTimers(true)) timers that are due at the very same instant fire together, so that the goroutines they wake are runnable at the
	// same time and their interleavings are explored (only when the deadlines are provably equal)
	for _, t := range act {
		if !in.simulTimers || t == best || !t.active {
			continue
		}
		if eq := tb.Eq(t.deadline, best.deadline); eq.IsConst() && eq.IsTrue() {
			in.fireTimer(t)
		}
	}
	return true
}

// advance moves the clock by d (BV64 ns) and fires every timer that is due, in creation order.
func (in *Interp) advance(d *Term) {
	tb := in.tb
	in.now = tb.BvBin(OpAdd, in.clock(), d)
	for _, t := range in.activeTimers() {
		due := tb.BvCmp(OpSLe, t.deadline, in.now)
		if due.IsConst() {
			if due.IsTrue() {
				in.fireTimer(t)
			}
		} else if in.decide(due) {
			in.fireTimer(t)
		}
	}
}

// timeValue builds a time.Time struct value with a monotonic reading of ns.
func (in *Interp) timeValue(ns *Term) Value {
	return &StructV{F: []Value{in.c64(1 << 63), ns, nilPtr(in.tb)}}
}
