package sx

import (
	"bufio"
	"fmt"
	"io"
	"os"
	"os/exec"
	"strconv"
	"strings"
	"sync"
	"time"
)

type Result int

const (
	Unsat Result = iota
	Sat
	Unknown
)

func (r Result) String() string { return [...]string{"unsat", "sat", "unknown"}[r] }

type SolverStats struct {
	Queries   int
	Sat       int
	UnsatN    int
	UnknownN  int
	Fallbacks int
	Time      time.Duration
	ByBackend map[string]time.Duration
}

// Session is one long-lived solver process with persistent declarations and definitions.
type Session struct {
	kind     string // z3new | z3old | cvc5
	cmd      *exec.Cmd
	in       io.WriteCloser
	out      *bufio.Reader
	declared map[string]bool
	defined  map[int]bool
	ndefs    int
	timeout  time.Duration
	log      io.Writer
	dead     bool
}

func solverArgv(kind string, timeout time.Duration) []string {
	ms := strconv.Itoa(int(timeout / time.Millisecond))
	switch kind {
	case "z3new":
		return []string{"z3-new", "-in", "-t:" + ms}
	case "z3old":
		return []string{"z3", "-in", "-t:" + ms}
	case "cvc5":
		return []string{"cvc5", "--incremental", "--produce-models", "--tlimit-per=" + ms, "--lang=smt2"}
	case "cvc5int":
		return []string{"cvc5", "--incremental", "--produce-models", "--solve-bv-as-int=sum", "--tlimit-per=" + ms, "--lang=smt2"}
	}
	panic("unknown solver " + kind)
}

func NewSession(kind string, timeout time.Duration, log io.Writer) (*Session, error) {
	s := &Session{kind: kind, timeout: timeout, log: log}
	if err := s.start(); err != nil {
		return nil, err
	}
	return s, nil
}

func (s *Session) start() error {
	argv := solverArgv(s.kind, s.timeout)
	s.cmd = exec.Command(argv[0], argv[1:]...)
	in, err := s.cmd.StdinPipe()
	if err != nil {
		return err
	}
	out, err := s.cmd.StdoutPipe()
	if err != nil {
		return err
	}
	s.cmd.Stderr = s.cmd.Stdout
	if err := s.cmd.Start(); err != nil {
		return err
	}
	s.in, s.out = in, bufio.NewReaderSize(out, 1<<20)
	s.declared = map[string]bool{}
	s.defined = map[int]bool{}
	s.ndefs = 0
	s.dead = false
	s.send("(set-option :produce-models true)\n(set-logic ALL)\n")
	return nil
}

func (s *Session) Close() {
	if s.cmd != nil && s.cmd.Process != nil {
		s.in.Close()
		s.cmd.Process.Kill()
		s.cmd.Wait()
	}
}

func (s *Session) restart() {
	s.Close()
	if err := s.start(); err != nil {
		panic(err)
	}
}

func (s *Session) send(txt string) {
	if s.log != nil {
		io.WriteString(s.log, txt)
	}
	if _, err := io.WriteString(s.in, txt); err != nil {
		s.dead = true
	}
}

// roundtrip sends txt and reads everything printed up to the echo marker.
func (s *Session) roundtrip(txt string) (string, error) {
	s.send(txt + "\n(echo \"@@done@@\")\n")
	var sb strings.Builder
	for {
		line, err := s.out.ReadString('\n')
		if strings.Contains(line, "@@done@@") {
			break
		}
		sb.WriteString(line)
		if err != nil {
			s.dead = true
			return sb.String(), err
		}
	}
	if s.log != nil {
		fmt.Fprintf(s.log, "; -> %s\n", strings.TrimSpace(sb.String()))
	}
	return sb.String(), nil
}

func ref(t *Term) string {
	if t.Op == OpVar || t.Op == OpConst || (t.Op == OpUF && len(t.Args) == 0) {
		return t.render(nil)
	}
	return "n" + strconv.Itoa(t.ID)
}

// emitDefs appends declarations/definitions needed for t (not yet known to `declared`/`defined`).
func emitDefs(sb *strings.Builder, t *Term, declared map[string]bool, defined map[int]bool) int {
	n := 0
	var walk func(t *Term)
	walk = func(t *Term) {
		switch t.Op {
		case OpConst:
			return
		case OpVar:
			if !declared[t.Name] {
				declared[t.Name] = true
				fmt.Fprintf(sb, "(declare-const %s %s)\n", smtName(t.Name), t.Sort)
			}
			return
		}
		if defined[t.ID] {
			return
		}
		defined[t.ID] = true
		for _, a := range t.Args {
			walk(a)
		}
		if t.Op == OpUF {
			key := "uf:" + t.Name
			if !declared[key] {
				declared[key] = true
				fmt.Fprintf(sb, "(declare-fun %s (", smtName(t.Name))
				for _, a := range t.Args {
					sb.WriteString(a.Sort.String() + " ")
				}
				fmt.Fprintf(sb, ") %s)\n", t.Sort)
			}
			if len(t.Args) == 0 {
				return
			}
		}
		fmt.Fprintf(sb, "(define-fun n%d () %s %s)\n", t.ID, t.Sort, t.render(ref))
		n++
	}
	walk(t)
	return n
}

// Script renders a standalone SMT-LIB2 script for the conjunction of asserts.
func Script(asserts []*Term, vars []*Term, timeoutMs int) string {
	var sb strings.Builder
	sb.WriteString("(set-option :produce-models true)\n(set-logic ALL)\n")
	dec, def := map[string]bool{}, map[int]bool{}
	for _, a := range asserts {
		emitDefs(&sb, a, dec, def)
	}
	for _, v := range vars {
		emitDefs(&sb, v, dec, def)
	}
	for _, a := range asserts {
		fmt.Fprintf(&sb, "(assert %s)\n", ref(a))
	}
	sb.WriteString("(check-sat)\n")
	if len(vars) > 0 {
		sb.WriteString("(get-value (")
		for _, v := range vars {
			sb.WriteString(ref(v) + " ")
		}
		sb.WriteString("))\n")
	}
	return sb.String()
}

func parseResult(out string) Result {
	for _, l := range strings.Split(out, "\n") {
		if strings.Contains(l, "(error") {
			// an error before the verdict makes it unreliable
			return Unknown
		}
		switch strings.TrimSpace(l) {
		case "sat":
			return Sat
		case "unsat":
			return Unsat
		case "unknown", "timeout":
			return Unknown
		}
	}
	return Unknown
}

// Check asks whether the conjunction of asserts is satisfiable; on Sat returns values of vars.
func (s *Session) Check(asserts []*Term, vars []*Term) (Result, Model, string) {
	if s.dead || s.ndefs > 150000 {
		s.restart()
	}
	var sb strings.Builder
	for _, a := range asserts {
		s.ndefs += emitDefs(&sb, a, s.declared, s.defined)
	}
	for _, v := range vars {
		s.ndefs += emitDefs(&sb, v, s.declared, s.defined)
	}
	sb.WriteString("(push 1)\n")
	for _, a := range asserts {
		fmt.Fprintf(&sb, "(assert %s)\n", ref(a))
	}
	sb.WriteString("(check-sat)")
	out, err := s.roundtrip(sb.String())
	if err != nil {
		s.restart()
		return Unknown, nil, "solver died: " + out
	}
	r := parseResult(out)
	var m Model
	if r == Sat && len(vars) > 0 {
		var q strings.Builder
		q.WriteString("(get-value (")
		for _, v := range vars {
			q.WriteString(ref(v) + " ")
		}
		q.WriteString("))")
		mo, err := s.roundtrip(q.String())
		if err != nil || strings.Contains(mo, "(error") {
			s.restart()
			return Unknown, nil, "get-value failed: " + mo
		}
		m = parseModel(mo, vars)
	}
	if _, err := s.roundtrip("(pop 1)"); err != nil {
		s.restart()
	}
	return r, m, out
}

// ---- s-expression model parsing ----

type sexp struct {
	atom string
	list []*sexp
}

func parseSexps(s string) []*sexp {
	var stack [][]*sexp
	cur := []*sexp{}
	i := 0
	for i < len(s) {
		c := s[i]
		switch {
		case c == '(':
			stack = append(stack, cur)
			cur = []*sexp{}
			i++
		case c == ')':
			l := &sexp{list: cur}
			if len(stack) == 0 {
				return cur
			}
			cur = stack[len(stack)-1]
			stack = stack[:len(stack)-1]
			cur = append(cur, l)
			i++
		case c == ' ' || c == '\n' || c == '\t' || c == '\r':
			i++
		case c == '|':
			j := strings.IndexByte(s[i+1:], '|')
			cur = append(cur, &sexp{atom: s[i+1 : i+1+j]})
			i += j + 2
		case c == '"':
			j := strings.IndexByte(s[i+1:], '"')
			cur = append(cur, &sexp{atom: s[i : i+j+2]})
			i += j + 2
		default:
			j := i
			for j < len(s) && !strings.ContainsRune("() \n\t\r", rune(s[j])) {
				j++
			}
			cur = append(cur, &sexp{atom: s[i:j]})
			i = j
		}
	}
	return cur
}

func sexpBV(e *sexp) (uint64, bool) {
	if e.list == nil {
		a := e.atom
		switch {
		case a == "true":
			return 1, true
		case a == "false":
			return 0, true
		case strings.HasPrefix(a, "#x"):
			v, err := strconv.ParseUint(a[2:], 16, 64)
			return v, err == nil
		case strings.HasPrefix(a, "#b"):
			v, err := strconv.ParseUint(a[2:], 2, 64)
			return v, err == nil
		}
		return 0, false
	}
	// (_ bvN w)
	if len(e.list) == 3 && e.list[0].atom == "_" && strings.HasPrefix(e.list[1].atom, "bv") {
		v, err := strconv.ParseUint(e.list[1].atom[2:], 10, 64)
		return v, err == nil
	}
	return 0, false
}

func parseModel(out string, vars []*Term) Model {
	m := Model{}
	top := parseSexps(out)
	for _, t := range top {
		for _, pair := range t.list {
			if len(pair.list) != 2 {
				continue
			}
			name := pair.list[0].atom
			if v, ok := sexpBV(pair.list[1]); ok {
				m[name] = v
			}
		}
	}
	return m
}

// ---- one-shot portfolio ----

type oneShot struct {
	name string
	argv []string
}

func portfolio(timeout time.Duration, wantInt bool) []oneShot {
	sec := strconv.Itoa(int(timeout/time.Second) + 1)
	ms := strconv.Itoa(int(timeout / time.Millisecond))
	p := []oneShot{
		{"z3new", []string{"z3-new", "-T:" + sec}},
		{"cvc5", []string{"cvc5", "--produce-models", "--tlimit=" + ms, "--lang=smt2"}},
		{"z3old", []string{"z3", "-T:" + sec}},
	}
	if wantInt {
		p = append([]oneShot{{"cvc5int", []string{"cvc5", "--produce-models", "--solve-bv-as-int=sum", "--tlimit=" + ms, "--lang=smt2"}}}, p...)
	}
	return p
}

// RunPortfolio runs the script with several back ends in parallel; first definitive answer wins.
func RunPortfolio(script string, vars []*Term, timeout time.Duration, wantInt bool, tmpdir string) (Result, Model, string) {
	f, err := os.CreateTemp(tmpdir, "q*.smt2")
	if err != nil {
		return Unknown, nil, ""
	}
	f.WriteString(script)
	f.Close()
	defer os.Remove(f.Name())
	type ans struct {
		r    Result
		m    Model
		name string
	}
	ps := portfolio(timeout, wantInt)
	ch := make(chan ans, len(ps))
	var mu sync.Mutex
	var cmds []*exec.Cmd
	for _, p := range ps {
		p := p
		go func() {
			cmd := exec.Command(p.argv[0], append(p.argv[1:], f.Name())...)
			mu.Lock()
			cmds = append(cmds, cmd)
			mu.Unlock()
			out, _ := cmd.CombinedOutput()
			so := string(out)
			r := parseResult(so)
			var m Model
			if r == Sat {
				idx := strings.Index(so, "sat")
				m = parseModel(so[idx+3:], vars)
			}
			ch <- ans{r, m, p.name}
		}()
	}
	res := ans{Unknown, nil, ""}
	for range ps {
		a := <-ch
		if a.r != Unknown {
			res = a
			break
		}
	}
	mu.Lock()
	for _, c := range cmds {
		if c.Process != nil {
			c.Process.Kill()
		}
	}
	mu.Unlock()
	return res.r, res.m, res.name
}
