package sx

import (
	"fmt"
	"go/types"
	"strings"

	"golang.org/x/tools/go/ssa"
)

type mutexState struct {
	locked  bool
	readers int
	owner   *Thread
}

type wgState struct{ n int64 }

type condState struct {
	waiters []*condWaiter
}

type condWaiter struct {
	th       *Thread
	signaled bool
}

func (in *Interp) cellOf(v Value, what string) *Cell {
	p, ok := v.(Ptr)
	if !ok {
		panic(unsupported{what + ": not a pointer"})
	}
	c, ok := p.single()
	if !ok {
		c = in.pickAlt(p)
	}
	if c == nil {
		in.goPanic(in.cur, "nil", "nil pointer dereference in "+what)
		panic(rtPanicNow{})
	}
	return c
}

func (in *Interp) mutexOf(c *Cell) *mutexState {
	if s, ok := in.side[c]; ok {
		return s.(*mutexState)
	}
	s := &mutexState{}
	in.side[c] = s
	return s
}

func always() bool { return true }

func registerSync() {
	I := intrinsics
	I["(*sync.Mutex).Lock"] = func(in *Interp, th *Thread, fn *ssa.Function, args []Value, d func(Value)) (Value, bool) {
		m := in.mutexOf(in.cellOf(args[0], "Mutex.Lock"))
		in.visible(th, &parkInfo{desc: "Lock@" + in.curPos(th), enabled: func() bool { return !m.locked && m.readers == 0 },
			fire: func() { m.locked = true; m.owner = th; d(nil) }})
		return asyncResult, true
	}
	I["(*sync.Mutex).TryLock"] = func(in *Interp, th *Thread, fn *ssa.Function, args []Value, d func(Value)) (Value, bool) {
		m := in.mutexOf(in.cellOf(args[0], "Mutex.TryLock"))
		in.visible(th, &parkInfo{desc: "TryLock", enabled: always, fire: func() {
			if m.locked || m.readers > 0 {
				d(in.tb.False)
				return
			}
			m.locked = true
			d(in.tb.True)
		}})
		return asyncResult, true
	}
	unlock := func(in *Interp, th *Thread, fn *ssa.Function, args []Value, d func(Value)) (Value, bool) {
		m := in.mutexOf(in.cellOf(args[0], "Mutex.Unlock"))
		if !m.locked {
			panic(pathEnd{"panic", "fatal error: sync: unlock of unlocked mutex at " + in.curPos(th)})
		}
		m.locked = false
		return nil, true
	}
	I["(*sync.Mutex).Unlock"] = unlock
	I["(*sync.RWMutex).Lock"] = I["(*sync.Mutex).Lock"]
	I["(*sync.RWMutex).TryLock"] = I["(*sync.Mutex).TryLock"]
	I["(*sync.RWMutex).Unlock"] = unlock
	I["(*sync.RWMutex).RLock"] = func(in *Interp, th *Thread, fn *ssa.Function, args []Value, d func(Value)) (Value, bool) {
		m := in.mutexOf(in.cellOf(args[0], "RWMutex.RLock"))
		in.visible(th, &parkInfo{desc: "RLock@" + in.curPos(th), enabled: func() bool { return !m.locked },
			fire: func() { m.readers++; d(nil) }})
		return asyncResult, true
	}
	I["(*sync.RWMutex).RUnlock"] = func(in *Interp, th *Thread, fn *ssa.Function, args []Value, d func(Value)) (Value, bool) {
		m := in.mutexOf(in.cellOf(args[0], "RWMutex.RUnlock"))
		if m.readers == 0 {
			panic(pathEnd{"panic", "fatal error: sync: RUnlock of unlocked RWMutex at " + in.curPos(th)})
		}
		m.readers--
		return nil, true
	}

	// WaitGroup
	wgOf := func(in *Interp, v Value) *wgState {
		c := in.cellOf(v, "WaitGroup")
		if s, ok := in.side[c]; ok {
			return s.(*wgState)
		}
		s := &wgState{}
		in.side[c] = s
		return s
	}
	I["(*sync.WaitGroup).Add"] = func(in *Interp, th *Thread, fn *ssa.Function, args []Value, d func(Value)) (Value, bool) {
		w := wgOf(in, args[0])
		dt := args[1].(*Term)
		if !dt.IsConst() {
			panic(unsupported{"WaitGroup.Add symbolic delta"})
		}
		w.n += int64(dt.Val)
		if w.n < 0 {
			in.goPanic(th, "wg", "sync: negative WaitGroup counter")
			panic(rtPanicNow{})
		}
		return nil, true
	}
	I["(*sync.WaitGroup).Done"] = func(in *Interp, th *Thread, fn *ssa.Function, args []Value, d func(Value)) (Value, bool) {
		w := wgOf(in, args[0])
		w.n--
		if w.n < 0 {
			in.goPanic(th, "wg", "sync: negative WaitGroup counter")
			panic(rtPanicNow{})
		}
		return nil, true
	}
	I["(*sync.WaitGroup).Wait"] = func(in *Interp, th *Thread, fn *ssa.Function, args []Value, d func(Value)) (Value, bool) {
		w := wgOf(in, args[0])
		in.visible(th, &parkInfo{desc: "WaitGroup.Wait@" + in.curPos(th), enabled: func() bool { return w.n == 0 }, fire: func() { d(nil) }})
		return asyncResult, true
	}

	// Cond
	condOf := func(in *Interp, v Value) (*condState, *Cell) {
		c := in.cellOf(v, "Cond")
		if s, ok := in.side[c]; ok {
			return s.(*condState), c
		}
		s := &condState{}
		in.side[c] = s
		return s, c
	}
	lockerOf := func(in *Interp, c *Cell) *mutexState {
		st := c.Typ.Underlying().(*types.Struct)
		for i := 0; i < st.NumFields(); i++ {
			if st.Field(i).Name() == "L" {
				iv := in.loadCell(c.Kids[i]).(IfaceV)
				if iv.T == nil {
					panic(unsupported{"Cond with nil L"})
				}
				return in.mutexOf(in.cellOf(iv.V, "Cond.L"))
			}
		}
		panic(unsupported{"Cond.L not found"})
	}
	I["(*sync.Cond).Wait"] = func(in *Interp, th *Thread, fn *ssa.Function, args []Value, d func(Value)) (Value, bool) {
		cs, cell := condOf(in, args[0])
		m := lockerOf(in, cell)
		if !m.locked {
			panic(pathEnd{"panic", "fatal error: sync: Cond.Wait with unlocked L"})
		}
		m.locked = false
		w := &condWaiter{th: th}
		cs.waiters = append(cs.waiters, w)
		// always park (even single-threaded): needs a Signal
		th.parked = &parkInfo{desc: "Cond.Wait@" + in.curPos(th), enabled: func() bool { return w.signaled && !m.locked && m.readers == 0 },
			fire: func() { m.locked = true; d(nil) }}
		return asyncResult, true
	}
	I["(*sync.Cond).Signal"] = func(in *Interp, th *Thread, fn *ssa.Function, args []Value, d func(Value)) (Value, bool) {
		cs, _ := condOf(in, args[0])
		var pend []*condWaiter
		for _, w := range cs.waiters {
			if !w.signaled {
				pend = append(pend, w)
			}
		}
		if len(pend) > 0 {
			pend[in.choose(len(pend), "signal")].signaled = true
		}
		return nil, true
	}
	I["(*sync.Cond).Broadcast"] = func(in *Interp, th *Thread, fn *ssa.Function, args []Value, d func(Value)) (Value, bool) {
		cs, _ := condOf(in, args[0])
		for _, w := range cs.waiters {
			w.signaled = true
		}
		return nil, true
	}

	// Pool: by default never reuses (Get returns New(), which the sync.Pool contract allows). With the
	// harness directive //verif:poolreuse Get nondeterministically returns any object Put earlier
	// (every choice explored) or a fresh one.
	poolNew := func(in *Interp, th *Thread, c *Cell, d func(Value)) (Value, bool) {
		st := c.Typ.Underlying().(*types.Struct)
		for i := 0; i < st.NumFields(); i++ {
			if st.Field(i).Name() == "New" {
				f := in.loadCell(c.Kids[i]).(*FuncV)
				if f == nil {
					return IfaceV{}, true
				}
				in.callThen(th, f, nil, d)
				return asyncResult, true
			}
		}
		return IfaceV{}, true
	}
	I["(*sync.Pool).Get"] = func(in *Interp, th *Thread, fn *ssa.Function, args []Value, d func(Value)) (Value, bool) {
		c := in.cellOf(args[0], "Pool.Get")
		if in.cfg.PoolReuse {
			if items, _ := in.side[c].([]Value); len(items) > 0 {
				k := in.choose(len(items)+1, "pool")
				if k > 0 {
					v := items[k-1]
					rest := append(append([]Value{}, items[:k-1]...), items[k:]...)
					in.side[c] = rest
					return v, true
				}
			}
		}
		return poolNew(in, th, c, d)
	}
	I["(*sync.Pool).Put"] = func(in *Interp, th *Thread, fn *ssa.Function, args []Value, d func(Value)) (Value, bool) {
		if in.cfg.PoolReuse {
			c := in.cellOf(args[0], "Pool.Put")
			if iv, ok := args[1].(IfaceV); ok && iv.T != nil {
				items, _ := in.side[c].([]Value)
				in.side[c] = append(append([]Value{}, items...), iv)
			}
		}
		return nil, true
	}
	I["sync.runtime_registerPoolCleanup"] = func(in *Interp, th *Thread, fn *ssa.Function, args []Value, d func(Value)) (Value, bool) {
		return nil, true
	}

	// sync.Map as an engine map keyed by interface values
	smOf := func(in *Interp, v Value) *MapObj {
		c := in.cellOf(v, "sync.Map")
		if s, ok := in.side[c]; ok {
			return s.(*MapObj)
		}
		any := types.NewInterfaceType(nil, nil)
		m := in.newMap(types.NewMap(any, any))
		in.side[c] = m
		return m
	}
	anyT := types.NewInterfaceType(nil, nil)
	atomicOp := func(name string, f func(in *Interp, th *Thread, args []Value) Value) {
		I[name] = func(in *Interp, th *Thread, fn *ssa.Function, args []Value, d func(Value)) (Value, bool) {
			in.visible(th, &parkInfo{desc: name, enabled: always, fire: func() { d(f(in, th, args)) }})
			return asyncResult, true
		}
	}
	atomicOp("(*sync.Map).Load", func(in *Interp, th *Thread, a []Value) Value {
		v, ok := in.mapLookup(smOf(in, a[0]), a[1], anyT)
		return TupleV{v, ok}
	})
	atomicOp("(*sync.Map).Store", func(in *Interp, th *Thread, a []Value) Value {
		in.mapUpdate(th, smOf(in, a[0]), a[1], a[2])
		return nil
	})
	atomicOp("(*sync.Map).Delete", func(in *Interp, th *Thread, a []Value) Value {
		in.mapDelete(th, smOf(in, a[0]), a[1])
		return nil
	})
	atomicOp("(*sync.Map).LoadOrStore", func(in *Interp, th *Thread, a []Value) Value {
		m := smOf(in, a[0])
		v, ok := in.mapLookup(m, a[1], anyT)
		if in.decide(ok) {
			return TupleV{v, in.tb.True}
		}
		in.mapUpdate(th, m, a[1], a[2])
		return TupleV{a[2], in.tb.False}
	})
	atomicOp("(*sync.Map).LoadAndDelete", func(in *Interp, th *Thread, a []Value) Value {
		m := smOf(in, a[0])
		v, ok := in.mapLookup(m, a[1], anyT)
		in.mapDelete(th, m, a[1])
		return TupleV{v, ok}
	})
	atomicOp("(*sync.Map).Swap", func(in *Interp, th *Thread, a []Value) Value {
		m := smOf(in, a[0])
		v, ok := in.mapLookup(m, a[1], anyT)
		in.mapUpdate(th, m, a[1], a[2])
		return TupleV{v, ok}
	})
	I["(*sync.Map).Range"] = func(in *Interp, th *Thread, fn *ssa.Function, args []Value, d func(Value)) (Value, bool) {
		m := smOf(in, args[0])
		f := args[1]
		snap := append([]*MapEntry{}, m.Entries...)
		var loop func(i int)
		loop = func(i int) {
			for i < len(snap) {
				e := snap[i]
				if e.Present.IsFalse() || (!e.Present.IsTrue() && !in.decide(e.Present)) {
					i++
					continue
				}
				j := i
				in.callThen(th, f, []Value{e.K, e.V}, func(r Value) {
					if in.decide(r.(*Term)) {
						loop(j + 1)
					} else {
						d(nil)
					}
				})
				return
			}
			d(nil)
		}
		loop(0)
		return asyncResult, true
	}

	// atomics
	for _, ty := range []string{"Int32", "Int64", "Uint32", "Uint64", "Uintptr", "Pointer"} {
		ty := ty
		atomicOp("sync/atomic.Load"+ty, func(in *Interp, th *Thread, a []Value) Value { return in.load(th, a[0]) })
		atomicOp("sync/atomic.Store"+ty, func(in *Interp, th *Thread, a []Value) Value { in.store(th, a[0], a[1]); return nil })
		atomicOp("sync/atomic.Swap"+ty, func(in *Interp, th *Thread, a []Value) Value {
			old := in.load(th, a[0])
			in.store(th, a[0], a[1])
			return old
		})
		atomicOp("sync/atomic.CompareAndSwap"+ty, func(in *Interp, th *Thread, a []Value) Value {
			old := in.load(th, a[0])
			eq := in.valEq(old, a[1])
			if eq.IsConst() {
				if eq.IsTrue() {
					in.store(th, a[0], a[2])
				}
				return eq
			}
			in.store(th, a[0], in.iteOrFork(eq, a[2], old))
			return eq
		})
		if ty != "Pointer" {
			atomicOp("sync/atomic.Add"+ty, func(in *Interp, th *Thread, a []Value) Value {
				nv := in.tb.BvBin(OpAdd, in.load(th, a[0]).(*Term), a[1].(*Term))
				in.store(th, a[0], nv)
				return nv
			})
			atomicOp("sync/atomic.And"+ty, func(in *Interp, th *Thread, a []Value) Value {
				old := in.load(th, a[0]).(*Term)
				in.store(th, a[0], in.tb.BvBin(OpBAnd, old, a[1].(*Term)))
				return old
			})
			atomicOp("sync/atomic.Or"+ty, func(in *Interp, th *Thread, a []Value) Value {
				old := in.load(th, a[0]).(*Term)
				in.store(th, a[0], in.tb.BvBin(OpBOr, old, a[1].(*Term)))
				return old
			})
		}
	}
	// atomic.Value: stored in its field `v any`
	avCell := func(in *Interp, v Value) *Cell { return in.cellOf(v, "atomic.Value").Kids[0] }
	atomicOp("(*sync/atomic.Value).Load", func(in *Interp, th *Thread, a []Value) Value { return in.loadCell(avCell(in, a[0])) })
	atomicOp("(*sync/atomic.Value).Store", func(in *Interp, th *Thread, a []Value) Value {
		if a[1].(IfaceV).T == nil {
			in.goPanic(th, "atomic", "sync/atomic: store of nil value into Value")
			panic(rtPanicNow{})
		}
		in.storeCell(avCell(in, a[0]), a[1])
		return nil
	})
	atomicOp("(*sync/atomic.Value).Swap", func(in *Interp, th *Thread, a []Value) Value {
		c := avCell(in, a[0])
		old := in.loadCell(c)
		in.storeCell(c, a[1])
		return old
	})
	atomicOp("(*sync/atomic.Value).CompareAndSwap", func(in *Interp, th *Thread, a []Value) Value {
		c := avCell(in, a[0])
		old := in.loadCell(c)
		eq := in.valEq(old, a[1])
		if in.decide(eq) {
			in.storeCell(c, a[2])
			return in.tb.True
		}
		return in.tb.False
	})
	I["runtime.Gosched"] = func(in *Interp, th *Thread, fn *ssa.Function, args []Value, d func(Value)) (Value, bool) {
		in.visible(th, &parkInfo{desc: "Gosched", enabled: always, fire: func() { d(nil) }})
		return asyncResult, true
	}
}

var _ = fmt.Sprint
var _ = strings.Contains
