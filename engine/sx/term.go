// Package sx is "gosx": a symbolic executor for Go SSA that emits SMT-LIB2.
package sx

import (
	"fmt"
	"math"
	"math/bits"
	"strings"
)

type SortKind uint8

const (
	SBool SortKind = iota
	SBV
	SFP
)

type Sort struct {
	K SortKind
	W int // BV width; FP total width (32 or 64)
}

var BoolSort = Sort{SBool, 0}

func BV(w int) Sort { return Sort{SBV, w} }
func FP(w int) Sort { return Sort{SFP, w} }

func (s Sort) String() string {
	switch s.K {
	case SBool:
		return "Bool"
	case SBV:
		return fmt.Sprintf("(_ BitVec %d)", s.W)
	default:
		if s.W == 32 {
			return "(_ FloatingPoint 8 24)"
		}
		return "(_ FloatingPoint 11 53)"
	}
}

type Op uint8

const (
	OpVar Op = iota
	OpConst
	OpNot
	OpAnd
	OpOr
	OpIte
	OpEq
	OpAdd
	OpSub
	OpMul
	OpUDiv
	OpURem
	OpSDiv
	OpSRem
	OpBAnd
	OpBOr
	OpBXor
	OpBNot
	OpNeg
	OpShl
	OpLShr
	OpAShr
	OpULt
	OpULe
	OpSLt
	OpSLe
	OpConcat
	OpExtract // X=hi, Y=lo
	OpZExt    // X = extra bits
	OpSExt
	OpFAdd
	OpFSub
	OpFMul
	OpFDiv
	OpFNeg
	OpFAbs
	OpFSqrt
	OpFRTI // X = mode: 0 RNE 1 RTZ 2 RTP(ceil) 3 RTN(floor) 4 RNA
	OpFLt
	OpFLe
	OpFEq
	OpFIsNaN
	OpFIsInf
	OpFToFP   // fp -> fp of sort
	OpSToFP   // signed bv -> fp
	OpUToFP   // unsigned bv -> fp
	OpFToSBV  // fp -> bv signed RTZ (unspecified when out of range; callers guard)
	OpFToUBV  // fp -> bv unsigned RTZ
	OpBitsToF // bv -> fp reinterpret
	OpUF      // uninterpreted function Name(args)
)

var opNames = map[Op]string{
	OpNot: "not", OpAnd: "and", OpOr: "or", OpIte: "ite", OpEq: "=",
	OpAdd: "bvadd", OpSub: "bvsub", OpMul: "bvmul", OpUDiv: "bvudiv", OpURem: "bvurem",
	OpSDiv: "bvsdiv", OpSRem: "bvsrem", OpBAnd: "bvand", OpBOr: "bvor", OpBXor: "bvxor",
	OpBNot: "bvnot", OpNeg: "bvneg", OpShl: "bvshl", OpLShr: "bvlshr", OpAShr: "bvashr",
	OpULt: "bvult", OpULe: "bvule", OpSLt: "bvslt", OpSLe: "bvsle", OpConcat: "concat",
	OpFNeg: "fp.neg", OpFAbs: "fp.abs", OpFLt: "fp.lt", OpFLe: "fp.leq", OpFEq: "fp.eq",
	OpFIsNaN: "fp.isNaN", OpFIsInf: "fp.isInfinite",
}

type Term struct {
	Op   Op
	Sort Sort
	Args []*Term
	Val  uint64 // constant value (BV, bool 0/1, FP bits)
	Name string // var / UF name
	X, Y int
	ID   int
	sym  bool // contains a variable
	Hard  bool // contains symbolic div/rem/mul (bit-blasting hostile)
	HasFP bool
}

func (t *Term) IsConst() bool { return t.Op == OpConst }
func (t *Term) IsTrue() bool  { return t.Op == OpConst && t.Sort.K == SBool && t.Val == 1 }
func (t *Term) IsFalse() bool { return t.Op == OpConst && t.Sort.K == SBool && t.Val == 0 }

// TB is a term builder with hash-consing. One per interpreter (not shared).
type TB struct {
	tab   map[string]*Term
	next  int
	True  *Term
	False *Term
}

func NewTB() *TB {
	b := &TB{tab: map[string]*Term{}}
	b.True = b.mk(&Term{Op: OpConst, Sort: BoolSort, Val: 1})
	b.False = b.mk(&Term{Op: OpConst, Sort: BoolSort, Val: 0})
	return b
}

func (b *TB) mk(t *Term) *Term {
	var sb strings.Builder
	fmt.Fprintf(&sb, "%d|%d|%d|%d|%d|%d|%s", t.Op, t.Sort.K, t.Sort.W, t.Val, t.X, t.Y, t.Name)
	for _, a := range t.Args {
		fmt.Fprintf(&sb, "|%d", a.ID)
	}
	k := sb.String()
	if o, ok := b.tab[k]; ok {
		return o
	}
	b.next++
	t.ID = b.next
	t.sym = t.Op == OpVar || t.Op == OpUF
	for _, a := range t.Args {
		if a.sym {
			t.sym = true
		}
		if a.Hard {
			t.Hard = true
		}
		if a.HasFP {
			t.HasFP = true
		}
	}
	if t.Sort.K == SFP {
		t.HasFP = true
	}
	switch t.Op {
	case OpUDiv, OpURem, OpSDiv, OpSRem:
		if t.Sort.W >= 16 && t.sym {
			t.Hard = true
		}
	case OpMul:
		if t.Sort.W >= 16 && t.Args[0].sym && t.Args[1].sym {
			t.Hard = true
		}
	}
	b.tab[k] = t
	return t
}

func mask(w int) uint64 {
	if w >= 64 {
		return ^uint64(0)
	}
	return (uint64(1) << uint(w)) - 1
}

func sext(v uint64, w int) int64 {
	if w >= 64 {
		return int64(v)
	}
	s := uint(64 - w)
	return int64(v<<s) >> s
}

func (b *TB) Var(name string, s Sort) *Term { return b.mk(&Term{Op: OpVar, Sort: s, Name: name}) }
func (b *TB) Const(w int, v uint64) *Term {
	return b.mk(&Term{Op: OpConst, Sort: BV(w), Val: v & mask(w)})
}
func (b *TB) Bool(v bool) *Term {
	if v {
		return b.True
	}
	return b.False
}
func (b *TB) FConst(w int, f float64) *Term {
	if w == 32 {
		return b.mk(&Term{Op: OpConst, Sort: FP(32), Val: uint64(math.Float32bits(float32(f)))})
	}
	return b.mk(&Term{Op: OpConst, Sort: FP(64), Val: math.Float64bits(f)})
}
func (b *TB) FBits(w int, bitsv uint64) *Term {
	return b.mk(&Term{Op: OpConst, Sort: FP(w), Val: bitsv & mask(w)})
}

func fval(t *Term) float64 {
	if t.Sort.W == 32 {
		return float64(math.Float32frombits(uint32(t.Val)))
	}
	return math.Float64frombits(t.Val)
}

func (b *TB) Not(a *Term) *Term {
	if a.IsConst() {
		return b.Bool(a.Val == 0)
	}
	if a.Op == OpNot {
		return a.Args[0]
	}
	return b.mk(&Term{Op: OpNot, Sort: BoolSort, Args: []*Term{a}})
}

func (b *TB) And(x, y *Term) *Term {
	if x.IsFalse() || y.IsFalse() {
		return b.False
	}
	if x.IsTrue() {
		return y
	}
	if y.IsTrue() {
		return x
	}
	if x == y {
		return x
	}
	if (x.Op == OpNot && x.Args[0] == y) || (y.Op == OpNot && y.Args[0] == x) {
		return b.False
	}
	return b.mk(&Term{Op: OpAnd, Sort: BoolSort, Args: []*Term{x, y}})
}

func (b *TB) Or(x, y *Term) *Term {
	if x.IsTrue() || y.IsTrue() {
		return b.True
	}
	if x.IsFalse() {
		return y
	}
	if y.IsFalse() {
		return x
	}
	if x == y {
		return x
	}
	if (x.Op == OpNot && x.Args[0] == y) || (y.Op == OpNot && y.Args[0] == x) {
		return b.True
	}
	return b.mk(&Term{Op: OpOr, Sort: BoolSort, Args: []*Term{x, y}})
}

func (b *TB) Implies(x, y *Term) *Term { return b.Or(b.Not(x), y) }

func (b *TB) Ite(c, x, y *Term) *Term {
	if c.IsTrue() {
		return x
	}
	if c.IsFalse() {
		return y
	}
	if x == y {
		return x
	}
	if x.Sort != y.Sort {
		panic(fmt.Sprintf("ite sort mismatch %v %v", x.Sort, y.Sort))
	}
	if x.Sort.K == SBool {
		if x.IsTrue() && y.IsFalse() {
			return c
		}
		if x.IsFalse() && y.IsTrue() {
			return b.Not(c)
		}
		if x.IsTrue() {
			return b.Or(c, y)
		}
		if x.IsFalse() {
			return b.And(b.Not(c), y)
		}
		if y.IsTrue() {
			return b.Or(b.Not(c), x)
		}
		if y.IsFalse() {
			return b.And(c, x)
		}
	}
	if c.Op == OpNot {
		return b.Ite(c.Args[0], y, x)
	}
	// ite(c, a, ite(c, _, d)) = ite(c, a, d)
	if y.Op == OpIte && y.Args[0] == c {
		return b.Ite(c, x, y.Args[2])
	}
	if x.Op == OpIte && x.Args[0] == c {
		return b.Ite(c, x.Args[1], y)
	}
	return b.mk(&Term{Op: OpIte, Sort: x.Sort, Args: []*Term{c, x, y}})
}

// liftable: ite whose then-branch is const (chains of table lookups).
func liftable(t *Term) bool {
	return t.Op == OpIte && t.Args[1].IsConst() && (t.Args[2].IsConst() || liftable(t.Args[2]))
}

func (b *TB) Eq(x, y *Term) *Term {
	if x == y {
		if x.Sort.K == SFP {
			// structural equality on FP ("=" in SMT-LIB): identical terms are equal
			return b.True
		}
		return b.True
	}
	if x.Sort != y.Sort {
		panic(fmt.Sprintf("eq sort mismatch %v %v", x.Sort, y.Sort))
	}
	if x.IsConst() && y.IsConst() {
		return b.Bool(x.Val == y.Val)
	}
	if x.IsConst() {
		x, y = y, x
	}
	if y.IsConst() && liftable(x) {
		return b.Ite(x.Args[0], b.Eq(x.Args[1], y), b.Eq(x.Args[2], y))
	}
	if x.Sort.K == SBool {
		if y.IsTrue() {
			return x
		}
		if y.IsFalse() {
			return b.Not(x)
		}
	}
	if x.ID > y.ID {
		x, y = y, x
	}
	return b.mk(&Term{Op: OpEq, Sort: BoolSort, Args: []*Term{x, y}})
}

func foldBin(op Op, w int, a, c uint64) (uint64, bool) {
	m := mask(w)
	switch op {
	case OpAdd:
		return (a + c) & m, true
	case OpSub:
		return (a - c) & m, true
	case OpMul:
		return (a * c) & m, true
	case OpUDiv:
		if c == 0 {
			return m, true
		}
		return a / c, true
	case OpURem:
		if c == 0 {
			return a, true
		}
		return a % c, true
	case OpSDiv:
		sa, sc := sext(a, w), sext(c, w)
		if sc == 0 {
			if sa < 0 {
				return 1, true
			}
			return m, true
		}
		if sc == -1 {
			return uint64(-sa) & m, true
		}
		return uint64(sa/sc) & m, true
	case OpSRem:
		sa, sc := sext(a, w), sext(c, w)
		if sc == 0 {
			return a, true
		}
		if sc == -1 {
			return 0, true
		}
		return uint64(sa%sc) & m, true
	case OpBAnd:
		return a & c, true
	case OpBOr:
		return a | c, true
	case OpBXor:
		return a ^ c, true
	case OpShl:
		if c >= uint64(w) {
			return 0, true
		}
		return (a << c) & m, true
	case OpLShr:
		if c >= uint64(w) {
			return 0, true
		}
		return a >> c, true
	case OpAShr:
		sa := sext(a, w)
		if c >= uint64(w) {
			c = uint64(w - 1)
			if w == 64 {
				c = 63
			}
		}
		return uint64(sa>>c) & m, true
	}
	return 0, false
}

func (b *TB) BvBin(op Op, x, y *Term) *Term {
	if x.Sort != y.Sort || x.Sort.K != SBV {
		panic(fmt.Sprintf("bvbin %v sort mismatch %v %v", opNames[op], x.Sort, y.Sort))
	}
	w := x.Sort.W
	if x.IsConst() && y.IsConst() {
		if v, ok := foldBin(op, w, x.Val, y.Val); ok {
			return b.Const(w, v)
		}
	}
	// division / remainder by a constant power of two: shifts and masks (bit-blasted division
	// circuits are needlessly expensive for these)
	if y.IsConst() && y.Val != 0 && y.Val&(y.Val-1) == 0 && sext(y.Val, w) > 0 {
		k := uint64(0)
		for (uint64(1) << k) != y.Val {
			k++
		}
		kc := b.Const(w, k)
		switch op {
		case OpUDiv:
			return b.BvBin(OpLShr, x, kc)
		case OpURem:
			return b.BvBin(OpBAnd, x, b.Const(w, y.Val-1))
		case OpSDiv, OpSRem:
			if k == 0 {
				if op == OpSDiv {
					return x
				}
				return b.Const(w, 0)
			}
			// q = (x + ((x >>a (w-1)) & (2^k-1))) >>a k   (rounds toward zero)
			sign := b.BvBin(OpAShr, x, b.Const(w, uint64(w-1)))
			bias := b.BvBin(OpBAnd, sign, b.Const(w, y.Val-1))
			q := b.BvBin(OpAShr, b.BvBin(OpAdd, x, bias), kc)
			if op == OpSDiv {
				return q
			}
			return b.BvBin(OpSub, x, b.BvBin(OpShl, q, kc))
		}
	}
	// identities
	switch op {
	case OpAdd, OpBOr, OpBXor:
		if x.IsConst() && x.Val == 0 {
			return y
		}
		if y.IsConst() && y.Val == 0 {
			return x
		}
	case OpSub, OpShl, OpLShr, OpAShr:
		if y.IsConst() && y.Val == 0 {
			return x
		}
		if op == OpSub && x == y {
			return b.Const(w, 0)
		}
	case OpMul:
		if (x.IsConst() && x.Val == 0) || (y.IsConst() && y.Val == 0) {
			return b.Const(w, 0)
		}
		if x.IsConst() && x.Val == 1 {
			return y
		}
		if y.IsConst() && y.Val == 1 {
			return x
		}
	case OpBAnd:
		if (x.IsConst() && x.Val == 0) || (y.IsConst() && y.Val == 0) {
			return b.Const(w, 0)
		}
		if x.IsConst() && x.Val == mask(w) {
			return y
		}
		if y.IsConst() && y.Val == mask(w) {
			return x
		}
		if x == y {
			return x
		}
	case OpUDiv, OpSDiv:
		if y.IsConst() && y.Val == 1 {
			return x
		}
	case OpURem, OpSRem:
		if y.IsConst() && y.Val == 1 {
			return b.Const(w, 0)
		}
	}
	if op == OpBOr && x == y {
		return x
	}
	// lift over const-branch ite chains
	if y.IsConst() && liftable(x) {
		return b.Ite(x.Args[0], b.BvBin(op, x.Args[1], y), b.BvBin(op, x.Args[2], y))
	}
	if x.IsConst() && liftable(y) {
		return b.Ite(y.Args[0], b.BvBin(op, x, y.Args[1]), b.BvBin(op, x, y.Args[2]))
	}
	// (x + c1) + c2
	if (op == OpAdd) && y.IsConst() && x.Op == OpAdd && x.Args[1].IsConst() {
		return b.BvBin(OpAdd, x.Args[0], b.Const(w, x.Args[1].Val+y.Val))
	}
	if op == OpSub && y.IsConst() {
		return b.BvBin(OpAdd, x, b.Const(w, -y.Val))
	}
	if (op == OpAdd || op == OpMul || op == OpBAnd || op == OpBOr || op == OpBXor) && x.IsConst() {
		x, y = y, x
	}
	return b.mk(&Term{Op: op, Sort: x.Sort, Args: []*Term{x, y}})
}

func (b *TB) BvCmp(op Op, x, y *Term) *Term {
	if x.Sort != y.Sort || x.Sort.K != SBV {
		panic(fmt.Sprintf("bvcmp sort mismatch %v %v", x.Sort, y.Sort))
	}
	w := x.Sort.W
	if x.IsConst() && y.IsConst() {
		switch op {
		case OpULt:
			return b.Bool(x.Val < y.Val)
		case OpULe:
			return b.Bool(x.Val <= y.Val)
		case OpSLt:
			return b.Bool(sext(x.Val, w) < sext(y.Val, w))
		case OpSLe:
			return b.Bool(sext(x.Val, w) <= sext(y.Val, w))
		}
	}
	if x == y {
		return b.Bool(op == OpULe || op == OpSLe)
	}
	if op == OpULt && y.IsConst() && y.Val == 0 {
		return b.False
	}
	if op == OpULe && x.IsConst() && x.Val == 0 {
		return b.True
	}
	if y.IsConst() && liftable(x) {
		return b.Ite(x.Args[0], b.BvCmp(op, x.Args[1], y), b.BvCmp(op, x.Args[2], y))
	}
	if x.IsConst() && liftable(y) {
		return b.Ite(y.Args[0], b.BvCmp(op, x, y.Args[1]), b.BvCmp(op, x, y.Args[2]))
	}
	// zext(a) <u const where const >= 2^w(a)
	if (op == OpULt || op == OpULe) && y.IsConst() && x.Op == OpZExt {
		iw := x.Args[0].Sort.W
		if iw < 64 && y.Val > mask(iw) {
			return b.True
		}
	}
	return b.mk(&Term{Op: op, Sort: BoolSort, Args: []*Term{x, y}})
}

func (b *TB) BvNot(x *Term) *Term {
	if x.IsConst() {
		return b.Const(x.Sort.W, ^x.Val)
	}
	return b.mk(&Term{Op: OpBNot, Sort: x.Sort, Args: []*Term{x}})
}
func (b *TB) BvNeg(x *Term) *Term {
	if x.IsConst() {
		return b.Const(x.Sort.W, -x.Val)
	}
	return b.mk(&Term{Op: OpNeg, Sort: x.Sort, Args: []*Term{x}})
}

func (b *TB) Extract(hi, lo int, x *Term) *Term {
	w := hi - lo + 1
	if lo == 0 && w == x.Sort.W {
		return x
	}
	if x.IsConst() {
		return b.Const(w, x.Val>>uint(lo))
	}
	if liftable(x) {
		return b.Ite(x.Args[0], b.Extract(hi, lo, x.Args[1]), b.Extract(hi, lo, x.Args[2]))
	}
	if (x.Op == OpZExt || x.Op == OpSExt) && hi < x.Args[0].Sort.W {
		return b.Extract(hi, lo, x.Args[0])
	}
	if x.Op == OpZExt && lo >= x.Args[0].Sort.W {
		return b.Const(w, 0)
	}
	if x.Op == OpExtract {
		return b.Extract(hi+x.Y, lo+x.Y, x.Args[0])
	}
	return b.mk(&Term{Op: OpExtract, Sort: BV(w), Args: []*Term{x}, X: hi, Y: lo})
}

func (b *TB) ZExt(to int, x *Term) *Term {
	if to == x.Sort.W {
		return x
	}
	if to < x.Sort.W {
		return b.Extract(to-1, 0, x)
	}
	if x.IsConst() {
		return b.Const(to, x.Val)
	}
	if liftable(x) {
		return b.Ite(x.Args[0], b.ZExt(to, x.Args[1]), b.ZExt(to, x.Args[2]))
	}
	if x.Op == OpZExt {
		return b.ZExt(to, x.Args[0])
	}
	return b.mk(&Term{Op: OpZExt, Sort: BV(to), Args: []*Term{x}, X: to - x.Sort.W})
}

func (b *TB) SExt(to int, x *Term) *Term {
	if to == x.Sort.W {
		return x
	}
	if to < x.Sort.W {
		return b.Extract(to-1, 0, x)
	}
	if x.IsConst() {
		return b.Const(to, uint64(sext(x.Val, x.Sort.W)))
	}
	if liftable(x) {
		return b.Ite(x.Args[0], b.SExt(to, x.Args[1]), b.SExt(to, x.Args[2]))
	}
	if x.Op == OpZExt {
		return b.ZExt(to, x.Args[0])
	}
	return b.mk(&Term{Op: OpSExt, Sort: BV(to), Args: []*Term{x}, X: to - x.Sort.W})
}

func (b *TB) Concat(hi, lo *Term) *Term {
	w := hi.Sort.W + lo.Sort.W
	if hi.IsConst() && lo.IsConst() && w <= 64 {
		return b.Const(w, hi.Val<<uint(lo.Sort.W)|lo.Val)
	}
	return b.mk(&Term{Op: OpConcat, Sort: BV(w), Args: []*Term{hi, lo}})
}

// ---- floating point ----

func (b *TB) fconstOf(w int, f float64) *Term { return b.FConst(w, f) }

func (b *TB) FBin(op Op, x, y *Term) *Term {
	if x.Sort != y.Sort || x.Sort.K != SFP {
		panic("fbin sort mismatch")
	}
	w := x.Sort.W
	if x.IsConst() && y.IsConst() {
		if w == 32 {
			a, c := math.Float32frombits(uint32(x.Val)), math.Float32frombits(uint32(y.Val))
			var r float32
			switch op {
			case OpFAdd:
				r = a + c
			case OpFSub:
				r = a - c
			case OpFMul:
				r = a * c
			case OpFDiv:
				r = a / c
			}
			return b.FBits(32, uint64(math.Float32bits(r)))
		}
		a, c := fval(x), fval(y)
		var r float64
		switch op {
		case OpFAdd:
			r = a + c
		case OpFSub:
			r = a - c
		case OpFMul:
			r = a * c
		case OpFDiv:
			r = a / c
		}
		return b.FBits(64, math.Float64bits(r))
	}
	return b.mk(&Term{Op: op, Sort: x.Sort, Args: []*Term{x, y}})
}

func (b *TB) FCmp(op Op, x, y *Term) *Term {
	if x.IsConst() && y.IsConst() {
		a, c := fval(x), fval(y)
		switch op {
		case OpFLt:
			return b.Bool(a < c)
		case OpFLe:
			return b.Bool(a <= c)
		case OpFEq:
			return b.Bool(a == c)
		}
	}
	return b.mk(&Term{Op: op, Sort: BoolSort, Args: []*Term{x, y}})
}

func (b *TB) FUn(op Op, x *Term, mode int) *Term {
	if x.IsConst() {
		f := fval(x)
		switch op {
		case OpFNeg:
			return b.FBits(x.Sort.W, x.Val^(uint64(1)<<uint(x.Sort.W-1)))
		case OpFAbs:
			return b.FBits(x.Sort.W, x.Val&^(uint64(1)<<uint(x.Sort.W-1)))
		case OpFSqrt:
			return b.FConst(x.Sort.W, math.Sqrt(f))
		case OpFRTI:
			switch mode {
			case 0:
				return b.FConst(x.Sort.W, math.RoundToEven(f))
			case 1:
				return b.FConst(x.Sort.W, math.Trunc(f))
			case 2:
				return b.FConst(x.Sort.W, math.Ceil(f))
			case 3:
				return b.FConst(x.Sort.W, math.Floor(f))
			case 4:
				return b.FConst(x.Sort.W, math.Round(f))
			}
		case OpFIsNaN:
			return b.Bool(math.IsNaN(f))
		case OpFIsInf:
			return b.Bool(math.IsInf(f, 0))
		}
	}
	s := x.Sort
	if op == OpFIsNaN || op == OpFIsInf {
		s = BoolSort
	}
	return b.mk(&Term{Op: op, Sort: s, Args: []*Term{x}, X: mode})
}

func (b *TB) FToFP(to int, x *Term) *Term {
	if x.Sort.W == to {
		return x
	}
	if x.IsConst() {
		return b.FConst(to, fval(x))
	}
	return b.mk(&Term{Op: OpFToFP, Sort: FP(to), Args: []*Term{x}})
}

func (b *TB) IntToFP(to int, x *Term, signed bool) *Term {
	if x.IsConst() {
		if signed {
			v := sext(x.Val, x.Sort.W)
			if to == 32 {
				return b.FBits(32, uint64(math.Float32bits(float32(v))))
			}
			return b.FConst(64, float64(v))
		}
		if to == 32 {
			return b.FBits(32, uint64(math.Float32bits(float32(x.Val))))
		}
		return b.FConst(64, float64(x.Val))
	}
	op := OpUToFP
	if signed {
		op = OpSToFP
	}
	return b.mk(&Term{Op: op, Sort: FP(to), Args: []*Term{x}})
}

// FToBVRaw: fp.to_sbv / fp.to_ubv with RTZ; caller guards the range.
func (b *TB) FToBVRaw(w int, x *Term, signed bool) *Term {
	op := OpFToUBV
	if signed {
		op = OpFToSBV
	}
	return b.mk(&Term{Op: op, Sort: BV(w), Args: []*Term{x}, X: w})
}

func (b *TB) BitsToF(w int, x *Term) *Term {
	if x.IsConst() {
		return b.FBits(w, x.Val)
	}
	return b.mk(&Term{Op: OpBitsToF, Sort: FP(w), Args: []*Term{x}})
}

func (b *TB) UF(name string, s Sort, args ...*Term) *Term {
	return b.mk(&Term{Op: OpUF, Sort: s, Name: name, Args: args})
}

// ---- printing ----

func bvLit(w int, v uint64) string {
	if w%4 == 0 {
		return fmt.Sprintf("#x%0*x", w/4, v&mask(w))
	}
	return fmt.Sprintf("#b%0*b", w, v&mask(w))
}

func fpLit(w int, v uint64) string {
	if w == 32 {
		return fmt.Sprintf("(fp #b%b #b%08b #b%023b)", (v>>31)&1, (v>>23)&0xff, v&0x7fffff)
	}
	return fmt.Sprintf("(fp #b%b #b%011b #b%052b)", (v>>63)&1, (v>>52)&0x7ff, v&((1<<52)-1))
}

var rmNames = []string{"RNE", "RTZ", "RTP", "RTN", "RNA"}

func smtName(n string) string { return "|" + n + "|" }

// head renders a node whose children are referenced via ref().
func (t *Term) render(ref func(*Term) string) string {
	switch t.Op {
	case OpVar:
		return smtName(t.Name)
	case OpConst:
		switch t.Sort.K {
		case SBool:
			if t.Val == 1 {
				return "true"
			}
			return "false"
		case SBV:
			return bvLit(t.Sort.W, t.Val)
		default:
			return fpLit(t.Sort.W, t.Val)
		}
	}
	var sb strings.Builder
	args := func() {
		for _, a := range t.Args {
			sb.WriteByte(' ')
			sb.WriteString(ref(a))
		}
		sb.WriteByte(')')
	}
	switch t.Op {
	case OpExtract:
		fmt.Fprintf(&sb, "((_ extract %d %d)", t.X, t.Y)
	case OpZExt:
		fmt.Fprintf(&sb, "((_ zero_extend %d)", t.X)
	case OpSExt:
		fmt.Fprintf(&sb, "((_ sign_extend %d)", t.X)
	case OpFAdd:
		sb.WriteString("(fp.add RNE")
	case OpFSub:
		sb.WriteString("(fp.sub RNE")
	case OpFMul:
		sb.WriteString("(fp.mul RNE")
	case OpFDiv:
		sb.WriteString("(fp.div RNE")
	case OpFSqrt:
		sb.WriteString("(fp.sqrt RNE")
	case OpFRTI:
		fmt.Fprintf(&sb, "(fp.roundToIntegral %s", rmNames[t.X])
	case OpFToFP:
		if t.Sort.W == 32 {
			sb.WriteString("((_ to_fp 8 24) RNE")
		} else {
			sb.WriteString("((_ to_fp 11 53) RNE")
		}
	case OpSToFP:
		if t.Sort.W == 32 {
			sb.WriteString("((_ to_fp 8 24) RNE")
		} else {
			sb.WriteString("((_ to_fp 11 53) RNE")
		}
	case OpUToFP:
		if t.Sort.W == 32 {
			sb.WriteString("((_ to_fp_unsigned 8 24) RNE")
		} else {
			sb.WriteString("((_ to_fp_unsigned 11 53) RNE")
		}
	case OpFToSBV:
		fmt.Fprintf(&sb, "((_ fp.to_sbv %d) RTZ", t.X)
	case OpFToUBV:
		fmt.Fprintf(&sb, "((_ fp.to_ubv %d) RTZ", t.X)
	case OpBitsToF:
		if t.Sort.W == 32 {
			sb.WriteString("((_ to_fp 8 24)")
		} else {
			sb.WriteString("((_ to_fp 11 53)")
		}
	case OpUF:
		if len(t.Args) == 0 {
			return smtName(t.Name)
		}
		sb.WriteString("(" + smtName(t.Name))
	default:
		n, ok := opNames[t.Op]
		if !ok {
			panic(fmt.Sprintf("render: op %d", t.Op))
		}
		sb.WriteString("(" + n)
	}
	args()
	return sb.String()
}

// String renders the full tree (debugging only; exponential on DAGs).
func (t *Term) String() string {
	return t.render(func(a *Term) string { return a.String() })
}

// ---- evaluation under a model ----

type Model map[string]uint64

type evalErr struct{ msg string }

// Eval evaluates t under m; vars missing from m default to 0. ok=false when a UF or
// an unspecified conversion is met.
func Eval(t *Term, m Model, memo map[*Term]uint64) (v uint64, ok bool) {
	if memo == nil {
		memo = map[*Term]uint64{}
	}
	defer func() {
		if r := recover(); r != nil {
			if _, is := r.(evalErr); is {
				ok = false
				return
			}
			panic(r)
		}
	}()
	return eval(t, m, memo), true
}

func eval(t *Term, m Model, memo map[*Term]uint64) uint64 {
	if t.Op == OpConst {
		return t.Val
	}
	if v, ok := memo[t]; ok {
		return v
	}
	var r uint64
	a := func(i int) uint64 { return eval(t.Args[i], m, memo) }
	bo := func(x bool) uint64 {
		if x {
			return 1
		}
		return 0
	}
	fa := func(i int) float64 {
		v := a(i)
		if t.Args[i].Sort.W == 32 {
			return float64(math.Float32frombits(uint32(v)))
		}
		return math.Float64frombits(v)
	}
	fr := func(w int, f float64) uint64 {
		if w == 32 {
			return uint64(math.Float32bits(float32(f)))
		}
		return math.Float64bits(f)
	}
	switch t.Op {
	case OpVar:
		r = m[t.Name] & maskSort(t.Sort)
	case OpNot:
		r = 1 - a(0)
	case OpAnd:
		r = a(0) & a(1)
	case OpOr:
		r = a(0) | a(1)
	case OpIte:
		if a(0) == 1 {
			r = a(1)
		} else {
			r = a(2)
		}
	case OpEq:
		if t.Args[0].Sort.K == SFP {
			x, y := a(0), a(1)
			// SMT "=": NaN = NaN (all NaNs identified), +0 != -0
			fx, fy := fa(0), fa(1)
			if math.IsNaN(fx) || math.IsNaN(fy) {
				r = bo(math.IsNaN(fx) && math.IsNaN(fy))
			} else {
				r = bo(x == y)
			}
		} else {
			r = bo(a(0) == a(1))
		}
	case OpAdd, OpSub, OpMul, OpUDiv, OpURem, OpSDiv, OpSRem, OpBAnd, OpBOr, OpBXor, OpShl, OpLShr, OpAShr:
		r, _ = foldBin(t.Op, t.Sort.W, a(0), a(1))
	case OpBNot:
		r = ^a(0) & mask(t.Sort.W)
	case OpNeg:
		r = -a(0) & mask(t.Sort.W)
	case OpULt:
		r = bo(a(0) < a(1))
	case OpULe:
		r = bo(a(0) <= a(1))
	case OpSLt:
		w := t.Args[0].Sort.W
		r = bo(sext(a(0), w) < sext(a(1), w))
	case OpSLe:
		w := t.Args[0].Sort.W
		r = bo(sext(a(0), w) <= sext(a(1), w))
	case OpConcat:
		if t.Sort.W > 64 {
			panic(evalErr{"wide concat"})
		}
		r = a(0)<<uint(t.Args[1].Sort.W) | a(1)
	case OpExtract:
		r = (a(0) >> uint(t.Y)) & mask(t.X-t.Y+1)
	case OpZExt:
		r = a(0)
	case OpSExt:
		r = uint64(sext(a(0), t.Args[0].Sort.W)) & mask(t.Sort.W)
	case OpFAdd, OpFSub, OpFMul, OpFDiv:
		if t.Sort.W == 32 {
			x, y := math.Float32frombits(uint32(a(0))), math.Float32frombits(uint32(a(1)))
			var z float32
			switch t.Op {
			case OpFAdd:
				z = x + y
			case OpFSub:
				z = x - y
			case OpFMul:
				z = x * y
			default:
				z = x / y
			}
			r = uint64(math.Float32bits(z))
		} else {
			x, y := fa(0), fa(1)
			var z float64
			switch t.Op {
			case OpFAdd:
				z = x + y
			case OpFSub:
				z = x - y
			case OpFMul:
				z = x * y
			default:
				z = x / y
			}
			r = math.Float64bits(z)
		}
	case OpFNeg:
		r = a(0) ^ (uint64(1) << uint(t.Sort.W-1))
	case OpFAbs:
		r = a(0) &^ (uint64(1) << uint(t.Sort.W-1))
	case OpFSqrt:
		r = fr(t.Sort.W, math.Sqrt(fa(0)))
	case OpFRTI:
		f := fa(0)
		switch t.X {
		case 0:
			f = math.RoundToEven(f)
		case 1:
			f = math.Trunc(f)
		case 2:
			f = math.Ceil(f)
		case 3:
			f = math.Floor(f)
		case 4:
			f = math.Round(f)
		}
		r = fr(t.Sort.W, f)
	case OpFLt:
		r = bo(fa(0) < fa(1))
	case OpFLe:
		r = bo(fa(0) <= fa(1))
	case OpFEq:
		r = bo(fa(0) == fa(1))
	case OpFIsNaN:
		r = bo(math.IsNaN(fa(0)))
	case OpFIsInf:
		r = bo(math.IsInf(fa(0), 0))
	case OpFToFP:
		r = fr(t.Sort.W, fa(0))
	case OpSToFP:
		v := sext(a(0), t.Args[0].Sort.W)
		if t.Sort.W == 32 {
			r = uint64(math.Float32bits(float32(v)))
		} else {
			r = math.Float64bits(float64(v))
		}
	case OpUToFP:
		if t.Sort.W == 32 {
			r = uint64(math.Float32bits(float32(a(0))))
		} else {
			r = math.Float64bits(float64(a(0)))
		}
	case OpFToSBV:
		f := math.Trunc(fa(0))
		w := t.Sort.W
		lim := math.Ldexp(1, w-1)
		if math.IsNaN(f) || f >= lim || f < -lim {
			panic(evalErr{"to_sbv out of range"})
		}
		r = uint64(int64(f)) & mask(w)
	case OpFToUBV:
		f := math.Trunc(fa(0))
		w := t.Sort.W
		if math.IsNaN(f) || f >= math.Ldexp(1, w) || f < 0 {
			panic(evalErr{"to_ubv out of range"})
		}
		r = uint64(f) & mask(w)
	case OpBitsToF:
		r = a(0)
	default:
		panic(evalErr{"uf"})
	}
	memo[t] = r
	return r
}

func maskSort(s Sort) uint64 {
	switch s.K {
	case SBool:
		return 1
	default:
		return mask(s.W)
	}
}

var _ = bits.Len64
