package sx

// Small value sets: terms built from constants by ite-chains (table lookups) and arithmetic have
// few possible values; computing them exactly decides many branch conditions without a solver.

const maxSet = 40

// uset returns the set of possible values of t (sorted not required) or nil if unknown/too large.
func (f *facts) uset(t *Term) []uint64 {
	if t.Sort.K != SBV || t.Sort.W > 64 {
		return nil
	}
	if t.IsConst() {
		return []uint64{t.Val}
	}
	if f.smemo == nil {
		f.smemo = map[*Term][]uint64{}
	}
	if s, ok := f.smemo[t]; ok {
		return s
	}
	f.smemo[t] = nil // cycle/recursion guard (DAG, so only cost control)
	var out []uint64
	add := func(v uint64) bool {
		for _, x := range out {
			if x == v {
				return true
			}
		}
		if len(out) >= maxSet {
			return false
		}
		out = append(out, v)
		return true
	}
	ok := true
	w := t.Sort.W
	switch t.Op {
	case OpIte:
		a, b := f.uset(t.Args[1]), f.uset(t.Args[2])
		if a == nil || b == nil {
			ok = false
			break
		}
		for _, v := range a {
			ok = ok && add(v)
		}
		for _, v := range b {
			ok = ok && add(v)
		}
	case OpZExt:
		a := f.uset(t.Args[0])
		if a == nil {
			ok = false
			break
		}
		out = append(out, a...)
	case OpSExt:
		a := f.uset(t.Args[0])
		if a == nil {
			ok = false
			break
		}
		for _, v := range a {
			ok = ok && add(uint64(sext(v, t.Args[0].Sort.W))&mask(w))
		}
	case OpExtract:
		a := f.uset(t.Args[0])
		if a == nil {
			ok = false
			break
		}
		for _, v := range a {
			ok = ok && add((v>>uint(t.Y))&mask(w))
		}
	case OpBNot:
		a := f.uset(t.Args[0])
		if a == nil {
			ok = false
			break
		}
		for _, v := range a {
			ok = ok && add(^v&mask(w))
		}
	case OpNeg:
		a := f.uset(t.Args[0])
		if a == nil {
			ok = false
			break
		}
		for _, v := range a {
			ok = ok && add(-v&mask(w))
		}
	case OpAdd, OpSub, OpMul, OpUDiv, OpURem, OpSDiv, OpSRem, OpBAnd, OpBOr, OpBXor, OpShl, OpLShr, OpAShr:
		a, b := f.uset(t.Args[0]), f.uset(t.Args[1])
		if a == nil || b == nil || len(a)*len(b) > 4*maxSet {
			ok = false
			break
		}
		for _, x := range a {
			for _, y := range b {
				v, _ := foldBin(t.Op, w, x, y)
				ok = ok && add(v)
			}
		}
	default:
		ok = false
	}
	if !ok || len(out) == 0 {
		// fall back: a narrow interval is also a small set
		if lo, hi := f.urangeNoSet(t); hi-lo < 16 && hi >= lo {
			out = out[:0]
			for v := lo; ; v++ {
				out = append(out, v)
				if v == hi {
					break
				}
			}
			f.smemo[t] = out
			return out
		}
		f.smemo[t] = nil
		return nil
	}
	// filter by path-condition interval on this very term
	if v, has := f.ivals[t]; has {
		flt := out[:0:0]
		for _, x := range out {
			if x >= v.ulo && x <= v.uhi && sext(x, w) >= v.slo && sext(x, w) <= v.shi {
				flt = append(flt, x)
			}
		}
		if len(flt) > 0 {
			out = flt
		}
	}
	f.smemo[t] = out
	return out
}

// cmpSets evaluates a comparison over all pairs; returns +1/-1 if uniform else 0.
func cmpSets(op Op, w int, a, b []uint64) int {
	res := 0
	for _, x := range a {
		for _, y := range b {
			var r bool
			switch op {
			case OpULt:
				r = x < y
			case OpULe:
				r = x <= y
			case OpSLt:
				r = sext(x, w) < sext(y, w)
			case OpSLe:
				r = sext(x, w) <= sext(y, w)
			case OpEq:
				r = x == y
			default:
				return 0
			}
			v := -1
			if r {
				v = 1
			}
			if res == 0 {
				res = v
			} else if res != v {
				return 0
			}
		}
	}
	return res
}

// urange: unsigned interval of t, from its value set when small, else structurally.
func (f *facts) urange(t *Term) (uint64, uint64) {
	if s := f.uset(t); s != nil {
		lo, hi := s[0], s[0]
		for _, v := range s[1:] {
			if v < lo {
				lo = v
			}
			if v > hi {
				hi = v
			}
		}
		return lo, hi
	}
	return f.urangeNoSet(t)
}
