package sx

import (
	"fmt"
	"go/types"

	"golang.org/x/tools/go/ssa"
)

// Value is one of:
//   *Term                scalar (bool, ints, floats, unsafe.Pointer-as-int never)
//   Ptr                  pointer (guarded alternatives)
//   *StructV             struct value (immutable)
//   *ArrayV              array value (immutable)
//   SliceV               slice
//   *StrV                string
//   IfaceV               interface value
//   *FuncV               function value / closure (nil *FuncV = nil func)
//   *MapObj              map (nil = nil map)
//   *ChanObj             channel (nil = nil chan)
//   TupleV               multi-value result
//   *IterV               range iterator
//   ComplexV             complex number (concrete only)
type Value interface{}

type PtrAlt struct {
	G *Term // guard; alternatives are mutually exclusive
	C *Cell // nil = nil pointer
}

type Ptr struct {
	Alts []PtrAlt
}

type StructV struct{ F []Value }
type ArrayV struct{ E []Value }
type TupleV []Value

type SliceV struct {
	Arr           *Cell // array cell; nil = nil slice
	Off, Len, Cap *Term // BV64
}

type StrV struct {
	Conc bool
	S    string
	B    []*Term // BV8 content when !Conc; len(B) is the static max length
	N    *Term   // BV64 length when !Conc
}

type IfaceV struct {
	T types.Type // dynamic type; nil = nil interface
	V Value
}

type FuncV struct {
	Fn       *ssa.Function
	Bindings []Value
	Builtin  *ssa.Builtin
	Native   string // engine-provided function value (e.g. timer callbacks)
}

type ComplexV struct{ Re, Im float64 }

type MapEntry struct {
	K, V    Value
	Present *Term
}

type MapObj struct {
	ID      int
	KeyT    types.Type
	ElemT   types.Type
	Entries []*MapEntry
	epoch   int
	saved   bool
}

type IterV struct {
	Map    *MapObj
	Order  []*MapEntry // snapshot
	Pos    int
	Str    *StrV
	StrPos int
}

// Cell is a memory location. Struct/array cells are containers with kids.
type Cell struct {
	ID     int
	Typ    types.Type
	Val    Value   // leaf value; nil = zero value not yet materialised
	Kids   []*Cell // struct fields / array elements (materialised lazily for arrays)
	N      int     // array length (for array cells)
	ElemT  types.Type
	Parent *Cell
	Index  int // index in parent
	epoch  int
	Label  string
}

func isContainer(t types.Type) bool {
	switch t.Underlying().(type) {
	case *types.Struct, *types.Array:
		return true
	}
	return false
}

func nilPtr(tb *TB) Ptr       { return Ptr{[]PtrAlt{{tb.True, nil}}} }
func mkPtr(tb *TB, c *Cell) Ptr { return Ptr{[]PtrAlt{{tb.True, c}}} }

func (p Ptr) single() (*Cell, bool) {
	if len(p.Alts) == 1 {
		return p.Alts[0].C, true
	}
	return nil, false
}

func sortOfBasic(b *types.Basic, sizes types.Sizes) (Sort, bool) {
	switch b.Kind() {
	case types.Bool, types.UntypedBool:
		return BoolSort, true
	case types.Int8, types.Uint8:
		return BV(8), true
	case types.Int16, types.Uint16:
		return BV(16), true
	case types.Int32, types.Uint32, types.UntypedRune:
		return BV(32), true
	case types.Int, types.Uint, types.Int64, types.Uint64, types.Uintptr, types.UntypedInt:
		return BV(64), true
	case types.Float32:
		return FP(32), true
	case types.Float64, types.UntypedFloat:
		return FP(64), true
	}
	return Sort{}, false
}

func isSigned(t types.Type) bool {
	if b, ok := t.Underlying().(*types.Basic); ok {
		return b.Info()&types.IsUnsigned == 0 && b.Info()&types.IsInteger != 0
	}
	return false
}

func isInteger(t types.Type) bool {
	if b, ok := t.Underlying().(*types.Basic); ok {
		return b.Info()&types.IsInteger != 0
	}
	return false
}

func isFloat(t types.Type) bool {
	if b, ok := t.Underlying().(*types.Basic); ok {
		return b.Info()&types.IsFloat != 0
	}
	return false
}

func isString(t types.Type) bool {
	if b, ok := t.Underlying().(*types.Basic); ok {
		return b.Info()&types.IsString != 0
	}
	return false
}

func under(t types.Type) types.Type {
	if tp, ok := t.(*types.TypeParam); ok {
		panic(unsupported{"type parameter at run time: " + tp.String()})
	}
	return t.Underlying()
}

// zero returns the zero value of t.
func (in *Interp) zero(t types.Type) Value {
	switch u := under(t).(type) {
	case *types.Basic:
		if u.Kind() == types.UnsafePointer {
			return nilPtr(in.tb)
		}
		if u.Info()&types.IsString != 0 {
			return &StrV{Conc: true}
		}
		if u.Info()&types.IsComplex != 0 {
			return ComplexV{}
		}
		if u.Kind() == types.UntypedNil {
			return nilPtr(in.tb)
		}
		s, ok := sortOfBasic(u, nil)
		if !ok {
			panic(unsupported{"zero of " + t.String()})
		}
		switch s.K {
		case SBool:
			return in.tb.False
		case SBV:
			return in.tb.Const(s.W, 0)
		default:
			return in.tb.FBits(s.W, 0)
		}
	case *types.Pointer:
		return nilPtr(in.tb)
	case *types.Struct:
		f := make([]Value, u.NumFields())
		for i := range f {
			f[i] = in.zero(u.Field(i).Type())
		}
		return &StructV{f}
	case *types.Array:
		n := int(u.Len())
		if n > 1<<16 {
			panic(unsupported{"large array value"})
		}
		e := make([]Value, n)
		if n > 0 {
			z := in.zero(u.Elem())
			for i := range e {
				e[i] = z
			}
		}
		return &ArrayV{e}
	case *types.Slice:
		z := in.tb.Const(64, 0)
		return SliceV{nil, z, z, z}
	case *types.Interface:
		return IfaceV{}
	case *types.Signature:
		return (*FuncV)(nil)
	case *types.Map:
		return (*MapObj)(nil)
	case *types.Chan:
		return (*ChanObj)(nil)
	case *types.Tuple:
		tv := make(TupleV, u.Len())
		for i := range tv {
			tv[i] = in.zero(u.At(i).Type())
		}
		return tv
	}
	panic(unsupported{"zero of " + t.String()})
}

// newCell allocates a cell of type t holding the zero value.
func (in *Interp) newCell(t types.Type) *Cell {
	in.cellSeq++
	c := &Cell{ID: in.cellSeq, Typ: t, epoch: in.epoch}
	in.stats.Allocs++
	switch u := under(t).(type) {
	case *types.Struct:
		c.Kids = make([]*Cell, u.NumFields())
		for i := range c.Kids {
			k := in.newCell(u.Field(i).Type())
			k.Parent, k.Index = c, i
			c.Kids[i] = k
		}
	case *types.Array:
		c.N = int(u.Len())
		c.ElemT = u.Elem()
	}
	return c
}

// newArrayCell allocates an array cell with n elements of type elem.
func (in *Interp) newArrayCell(elem types.Type, n int) *Cell {
	in.cellSeq++
	in.stats.Allocs++
	return &Cell{ID: in.cellSeq, Typ: types.NewArray(elem, int64(n)), N: n, ElemT: elem, epoch: in.epoch}
}

func (c *Cell) isArray() bool { return c.ElemT != nil }

// kid returns the i-th child, materialising it for arrays.
func (in *Interp) kid(c *Cell, i int) *Cell {
	if c.isArray() {
		if i < 0 || i >= c.N {
			panic(fmt.Sprintf("internal: kid %d of array[%d]", i, c.N))
		}
		if c.Kids == nil {
			c.Kids = make([]*Cell, c.N)
		}
		k := c.Kids[i]
		if k == nil {
			ep := in.epoch
			in.epoch = c.epoch
			k = in.newCell(c.ElemT)
			in.epoch = ep
			k.Parent, k.Index = c, i
			c.Kids[i] = k
		}
		return k
	}
	return c.Kids[i]
}

// load reads the whole value of a cell.
func (in *Interp) loadCell(c *Cell) Value {
	if c.isArray() {
		e := make([]Value, c.N)
		var z Value
		for i := range e {
			if c.Kids != nil && c.Kids[i] != nil {
				e[i] = in.loadCell(c.Kids[i])
			} else {
				if z == nil {
					z = in.zero(c.ElemT)
				}
				e[i] = z
			}
		}
		return &ArrayV{e}
	}
	if c.Kids != nil {
		f := make([]Value, len(c.Kids))
		for i, k := range c.Kids {
			f[i] = in.loadCell(k)
		}
		return &StructV{f}
	}
	if c.Val == nil {
		c.Val = in.zero(c.Typ)
	}
	return c.Val
}

type undo struct {
	c   *Cell
	old Value
}

func (in *Interp) storeCell(c *Cell, v Value) {
	if c.isArray() {
		av, ok := v.(*ArrayV)
		if !ok {
			panic(fmt.Sprintf("internal: store %T into array cell", v))
		}
		for i := 0; i < c.N; i++ {
			if c.Kids == nil || c.Kids[i] == nil {
				// avoid materialising zero stores into untouched arrays
				if in.isZero(av.E[i]) {
					continue
				}
			}
			in.storeCell(in.kid(c, i), av.E[i])
		}
		return
	}
	if c.Kids != nil {
		sv, ok := v.(*StructV)
		if !ok {
			panic(fmt.Sprintf("internal: store %T into struct cell %s", v, c.Typ))
		}
		for i, k := range c.Kids {
			in.storeCell(k, sv.F[i])
		}
		return
	}
	if c.epoch != in.epoch && !in.noTrail {
		in.trail = append(in.trail, undo{c, c.Val})
	}
	c.Val = v
}

func (in *Interp) isZero(v Value) bool {
	switch x := v.(type) {
	case *Term:
		return x.IsConst() && x.Val == 0
	case *StrV:
		return x.Conc && x.S == ""
	case Ptr:
		return len(x.Alts) == 1 && x.Alts[0].C == nil
	case IfaceV:
		return x.T == nil
	case *FuncV:
		return x == nil
	case *MapObj:
		return x == nil
	case *ChanObj:
		return x == nil
	case SliceV:
		return x.Arr == nil
	}
	return false
}

// ---- guarded merge of values ----

type cannotMerge struct{}

// ite builds "if g then a else b" at value level; panics with cannotMerge when impossible.
func (in *Interp) ite(g *Term, a, b Value) Value {
	if g.IsTrue() {
		return a
	}
	if g.IsFalse() {
		return b
	}
	tb := in.tb
	switch x := a.(type) {
	case *Term:
		return tb.Ite(g, x, b.(*Term))
	case Ptr:
		y := b.(Ptr)
		var out []PtrAlt
		add := func(gg *Term, c *Cell) {
			if gg.IsFalse() {
				return
			}
			for i := range out {
				if out[i].C == c {
					out[i].G = tb.Or(out[i].G, gg)
					return
				}
			}
			out = append(out, PtrAlt{gg, c})
		}
		for _, al := range x.Alts {
			add(tb.And(g, al.G), al.C)
		}
		ng := tb.Not(g)
		for _, al := range y.Alts {
			add(tb.And(ng, al.G), al.C)
		}
		if len(out) == 1 {
			out[0].G = tb.True
		}
		return Ptr{out}
	case *StructV:
		y := b.(*StructV)
		f := make([]Value, len(x.F))
		for i := range f {
			f[i] = in.ite(g, x.F[i], y.F[i])
		}
		return &StructV{f}
	case *ArrayV:
		y := b.(*ArrayV)
		e := make([]Value, len(x.E))
		for i := range e {
			e[i] = in.ite(g, x.E[i], y.E[i])
		}
		return &ArrayV{e}
	case TupleV:
		y := b.(TupleV)
		e := make(TupleV, len(x))
		for i := range e {
			e[i] = in.ite(g, x[i], y[i])
		}
		return e
	case SliceV:
		y := b.(SliceV)
		if x.Arr == y.Arr {
			return SliceV{x.Arr, tb.Ite(g, x.Off, y.Off), tb.Ite(g, x.Len, y.Len), tb.Ite(g, x.Cap, y.Cap)}
		}
	case *StrV:
		y := b.(*StrV)
		if x.Conc && y.Conc && x.S == y.S {
			return x
		}
		xs, ys := in.symStr(x), in.symStr(y)
		n := len(xs.B)
		if len(ys.B) > n {
			n = len(ys.B)
		}
		bs := make([]*Term, n)
		z := tb.Const(8, 0)
		for i := range bs {
			xa, ya := z, z
			if i < len(xs.B) {
				xa = xs.B[i]
			}
			if i < len(ys.B) {
				ya = ys.B[i]
			}
			bs[i] = tb.Ite(g, xa, ya)
		}
		return &StrV{B: bs, N: tb.Ite(g, xs.N, ys.N)}
	case IfaceV:
		y := b.(IfaceV)
		if x.T == nil && y.T == nil {
			return x
		}
		if x.T != nil && y.T != nil && types.Identical(x.T, y.T) {
			return IfaceV{x.T, in.ite(g, x.V, y.V)}
		}
	case *FuncV:
		if y := b.(*FuncV); x == y {
			return x
		}
	case *MapObj:
		if y := b.(*MapObj); x == y {
			return x
		}
	case *ChanObj:
		if y := b.(*ChanObj); x == y {
			return x
		}
	}
	panic(cannotMerge{})
}

// symStr converts a string value to symbolic representation.
func (in *Interp) symStr(s *StrV) *StrV {
	if !s.Conc {
		return s
	}
	bs := make([]*Term, len(s.S))
	for i := range bs {
		bs[i] = in.tb.Const(8, uint64(s.S[i]))
	}
	return &StrV{B: bs, N: in.tb.Const(64, uint64(len(s.S)))}
}

// concStr tries to turn a symbolic-representation string with all-constant content into concrete.
func (in *Interp) normStr(s *StrV) *StrV {
	if s.Conc {
		return s
	}
	if !s.N.IsConst() {
		return s
	}
	n := int(s.N.Val)
	if n > len(s.B) {
		n = len(s.B)
	}
	buf := make([]byte, n)
	for i := 0; i < n; i++ {
		if !s.B[i].IsConst() {
			if n < len(s.B) {
				return &StrV{B: s.B[:n], N: s.N}
			}
			return s
		}
		buf[i] = byte(s.B[i].Val)
	}
	return &StrV{Conc: true, S: string(buf)}
}

func concString(s string) *StrV { return &StrV{Conc: true, S: s} }
