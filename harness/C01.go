//go:build verif

// C01: outbound DATA never exceeds the peer's flow-control windows (loopyWriter).
//verif:pkg internal/transport
//verif:bound loop=40 steps=8000000 paths=300000
//verif:stub (*google.golang.org/grpc/internal/transport.framer).writeData => verifStubWriteData
//verif:stub (*golang.org/x/net/http2.Framer).WriteHeaders => verifStubWriteHeaders
//verif:stub (*golang.org/x/net/http2.Framer).WriteContinuation => verifStubWriteContinuation
//verif:stub (*golang.org/x/net/http2.Framer).WriteRSTStream => verifStubWriteRST
//verif:stub (*golang.org/x/net/http2.Framer).WriteSettingsAck => verifStubWriteSettingsAck
//verif:stub (*golang.org/x/net/http2/hpack.Encoder).WriteField => verifStubWriteField
//verif:noreplay-stubbed
//verif:assume the peer conforms to RFC 7540 6.9.1: a WINDOW_UPDATE never raises a window above 2^31-1, and SETTINGS_INITIAL_WINDOW_SIZE is at most 2^31-1
//verif:outside the bytes produced by the HTTP/2 framer and the hpack encoder (third-party; the frames handed to them are recorded); more than 2 streams, 2 queued messages per stream and 2 control items or write rounds, starting from a queue state built by the real handlers (1-2 messages on one stream, 0-1 on the other, optionally one frame already sent) with ARBITRARY connection window, initial window size and bytes in flight; message payloads above 40000 bytes; real sockets
package transport

import (
	"bytes"

	"golang.org/x/net/http2"
	"golang.org/x/net/http2/hpack"
	"google.golang.org/grpc/mem"
)

const verifProp = 1 // 1: window limits (C01)  2: order/completeness (C02)  3: progress invariants (C03)

type verifWrite struct {
	id        uint32
	endStream bool
	size      int
	pieces    [][]byte
}

type verifHdrWrite struct {
	id         uint32
	endStream  bool
	endHeaders bool
	size       int
	cont       bool
}

var (
	verifWrites    []verifWrite
	verifHdrWrites []verifHdrWrite
	verifRSTs      []uint32
	verifLoopy     *loopyWriter
	verifFieldSize int
)

func verifStubWriteData(f *framer, streamID uint32, endStream bool, data [][]byte) error {
	n := 0
	ps := make([][]byte, len(data))
	for i, d := range data {
		n += len(d)
		ps[i] = d
	}
	verifWrites = append(verifWrites, verifWrite{streamID, endStream, n, ps})
	return nil
}

func verifStubWriteHeaders(f *http2.Framer, p http2.HeadersFrameParam) error {
	verifHdrWrites = append(verifHdrWrites, verifHdrWrite{p.StreamID, p.EndStream, p.EndHeaders, len(p.BlockFragment), false})
	return nil
}

func verifStubWriteContinuation(f *http2.Framer, streamID uint32, endHeaders bool, frag []byte) error {
	verifHdrWrites = append(verifHdrWrites, verifHdrWrite{streamID, false, endHeaders, len(frag), true})
	return nil
}

func verifStubWriteRST(f *http2.Framer, streamID uint32, code http2.ErrCode) error {
	verifRSTs = append(verifRSTs, streamID)
	return nil
}

func verifStubWriteSettingsAck(f *http2.Framer) error { return nil }

// the hpack encoder is replaced by "append verifFieldSize bytes to the header block buffer"
func verifStubWriteField(e *hpack.Encoder, f hpack.HeaderField) error {
	b := make([]byte, 40000)
	*verifLoopy.hBuf = *bytes.NewBuffer(b[:verifFieldSize]) // no byte copying: only the block length matters
	return nil
}

// ---- ghost state ----
type verifMsg struct {
	h       []byte
	buf     []byte // payload backing slice (one buffer per message)
	n       int    // payload length
	end     bool
	hOff    int // header bytes already handed to the framer
	dOff    int // payload bytes already handed to the framer
	df      *dataFrame
}

type verifStream struct {
	id       uint32
	win      int64 // peer's stream window: oiws - bytesOutStanding
	msgs     []*verifMsg
	ended    bool // END_STREAM or cleanup seen
	trailers bool // trailers queued behind data
}

type verifGhost struct {
	conn    int64 // peer's connection window
	streams []*verifStream
}

func (g *verifGhost) byID(id uint32) *verifStream {
	for _, s := range g.streams {
		if s.id == id {
			return s
		}
	}
	return nil
}

// consume checks every DATA write recorded since the last call against the ghost ledger
func (g *verifGhost) consume() {
	for _, w := range verifWrites {
		s := g.byID(w.id)
		verifAssert(s != nil, "DATA only for an established stream")
		if s == nil {
			continue
		}
		if verifProp == 1 {
			verifAssert(w.size <= http2MaxFrameLen, "DATA frame payload at most 16384 bytes")
			verifAssert(int64(w.size) <= g.conn, "DATA never exceeds the connection-level window")
			verifAssert(w.size == 0 || int64(w.size) <= s.win, "DATA never exceeds the stream-level window (nothing but an empty frame when the window is <= 0)")
		}
		g.conn -= int64(w.size)
		s.win -= int64(w.size)
		if verifProp == 2 {
			verifAssert(!s.ended, "nothing is written on a stream after END_STREAM / trailers / reset")
			verifAssert(len(s.msgs) > 0, "DATA corresponds to a queued message")
			if len(s.msgs) > 0 {
				m := s.msgs[0]
				rest := w.size
				for _, p := range w.pieces {
					if len(p) == 0 {
						continue
					}
					if m.hOff < len(m.h) {
						verifAssert(verifSameArray(p, m.h) && cap(m.h)-cap(p) == m.hOff && len(p) <= len(m.h)-m.hOff, "message header bytes are sent first, contiguous, once")
						m.hOff += len(p)
					} else {
						verifAssert(verifSameArray(p, m.buf) && cap(m.buf)-cap(p) == m.dOff && len(p) <= m.n-m.dOff, "payload bytes are the next unsent range: no loss, duplication or reordering")
						m.dOff += len(p)
					}
					rest -= len(p)
				}
				verifAssert(rest == 0, "frame length equals the bytes handed over")
				done := m.hOff == len(m.h) && m.dOff == m.n
				verifAssert(w.endStream == (m.end && done), "END_STREAM exactly on the frame that carries the last byte of the last message")
				if done {
					s.msgs = s.msgs[1:]
					if m.end {
						s.ended = true
					}
				}
			}
		} else if len(s.msgs) > 0 {
			// keep the queue model in step without the byte-level checks
			m := s.msgs[0]
			take := w.size
			hh := len(m.h) - m.hOff
			if hh > take {
				hh = take
			}
			m.hOff += hh
			m.dOff += take - hh
			if m.hOff == len(m.h) && m.dOff == m.n {
				s.msgs = s.msgs[1:]
				if m.end {
					s.ended = true
				}
			}
		}
	}
	verifWrites = verifWrites[:0]
	for _, h := range verifHdrWrites {
		if verifProp == 1 {
			verifAssert(h.size <= http2MaxFrameLen, "HEADERS / CONTINUATION fragment at most 16384 bytes")
		}
		if s := g.byID(h.id); s != nil && h.endStream {
			if verifProp == 2 {
				verifAssert(len(s.msgs) == 0, "trailers are emitted only after the last byte of pending data")
			}
			s.ended = true
		}
	}
	verifHdrWrites = verifHdrWrites[:0]
}

// checkLedger: the implementation's counters equal the ghost windows
func (g *verifGhost) checkLedger(l *loopyWriter) {
	verifAssert(int64(l.sendQuota) == g.conn, "connection window ledger exact")
	for _, s := range g.streams {
		if str, ok := l.estdStreams[s.id]; ok {
			verifAssert(int64(l.oiws)-int64(str.bytesOutStanding) == s.win, "stream window ledger exact")
		}
	}
}

// checkInv: structural invariants of the writer's scheduling state (C03)
func (g *verifGhost) checkInv(l *loopyWriter) {
	for _, s := range g.streams {
		str, ok := l.estdStreams[s.id]
		if !ok {
			continue
		}
		onList := 0
		for e := l.activeStreams.head.next; e != l.activeStreams.tail; e = e.next {
			if e == str {
				onList++
			}
		}
		verifAssert((str.state == active) == (onList == 1) && onList <= 1, "a stream is on the active list exactly once iff its state is active")
		verifAssert((str.state == empty) == str.itl.isEmpty(), "a stream with queued items is active or waiting, never forgotten")
		if str.state == waitingOnStreamQuota {
			verifAssert(s.win <= 0, "no stream waits for stream quota while its window is positive")
		}
		if !str.itl.isEmpty() {
			_, isData := str.itl.peek().(*dataFrame)
			verifAssert(isData, "the head of a non-empty queue is a data item")
		}
	}
}

func verifNewMsg(id uint32) (*verifMsg, *dataFrame) {
	hb := make([]byte, 5)
	hl := verifChoice("hlen", 2) * 5 // 0 or 5 header bytes
	n := verifInt("paylen")
	verifAssume(n >= 0 && n <= 40000)
	buf := make([]byte, 40000)
	m := &verifMsg{h: hb[:hl], buf: buf, n: n, end: verifBool("endStream")}
	df := &dataFrame{streamID: id, endStream: m.end, h: m.h, data: mem.BufferSlice{mem.SliceBuffer(buf[:n])}}
	m.df = df
	return m, df
}

var verifSteps = 1

// (a deeper entry with 2 and 3 havoc steps was tried for the thorough tier and did not finish within 40 and 80 minutes;
// both tiers therefore run the one-step inductive check below)

func verifH_C01_loopy() {
	verifWrites, verifHdrWrites, verifRSTs = nil, nil, nil
	done := make(chan struct{})
	l := newLoopyWriter(serverSide, &framer{}, newControlBuffer(done), nil, nil, nil, nil, nil)
	verifLoopy = l
	// phase 1: build a queue state through the real handlers under generous windows
	l.sendQuota, l.oiws = 1<<31-1, 1<<31-1
	g := &verifGhost{conn: int64(l.sendQuota)}
	ids := [...]uint32{1, 3}
	for _, id := range ids {
		wq := &writeQuota{}
		wq.init(1<<20, done)
		l.handle(&registerStream{streamID: id, wq: wq})
		g.streams = append(g.streams, &verifStream{id: id, win: int64(l.oiws)})
	}
	nq := 1 + verifChoice("queued-on-1", 2) // one or two messages on stream 1
	for i := 0; i < nq; i++ {
		m, df := verifNewMsg(1)
		if i+1 < nq {
			verifAssume(!m.end)
		}
		g.streams[0].msgs = append(g.streams[0].msgs, m)
		l.handle(df)
	}
	if verifBool("queued-on-3") {
		m, df := verifNewMsg(3)
		g.streams[1].msgs = append(g.streams[1].msgs, m)
		l.handle(df)
	}
	if verifBool("first-frame-already-sent") { // leaves a partially sent message when it is longer than a frame
		l.processData()
		g.consume()
	}
	// phase 2: forget the windows: ARBITRARY connection window, initial window and bytes in flight
	// (also more in flight than the window allows, as after a SETTINGS decrease)
	l.sendQuota = verifUint32("sendQuota")
	l.oiws = verifUint32("oiws")
	verifAssume(l.sendQuota <= 1<<31-1 && l.oiws <= 1<<31-1)
	g.conn = int64(l.sendQuota)
	for _, s := range g.streams {
		str, ok := l.estdStreams[s.id]
		if !ok {
			continue
		}
		out := verifInt("bytesOutstanding")
		verifAssume(out >= -(1<<31-1) && out <= 1<<31-1 && int64(l.oiws)-int64(out) <= 1<<31-1)
		str.bytesOutStanding = out
		s.win = int64(l.oiws) - int64(out)
		if str.state == active && s.win <= 0 && verifBool("parked") {
			str.state = waitingOnStreamQuota // as an earlier write round would have left it
			str.deleteSelf()
		}
	}
	wrote, stalled := false, false
	for step := 0; step < verifSteps; step++ {
		switch verifChoice("event", 5) {
		case 0: // application queues a message
			s := g.streams[verifChoice("stream", 2)]
			if s.ended || s.trailers || len(s.msgs) >= 2 {
				continue
			}
			m, df := verifNewMsg(s.id)
			s.msgs = append(s.msgs, m)
			l.handle(df)
		case 1: // WINDOW_UPDATE from the peer
			inc := verifUint32("increment")
			verifAssume(inc >= 1 && inc <= 1<<31-1)
			which := verifChoice("wu-target", 3)
			if which == 0 {
				verifAssume(g.conn+int64(inc) <= 1<<31-1)
				g.conn += int64(inc)
				l.handle(&incomingWindowUpdate{streamID: 0, increment: inc})
			} else {
				s := g.streams[which-1]
				verifAssume(s.win+int64(inc) <= 1<<31-1)
				if _, ok := l.estdStreams[s.id]; ok {
					s.win += int64(inc)
				}
				l.handle(&incomingWindowUpdate{streamID: s.id, increment: inc})
			}
		case 2: // SETTINGS_INITIAL_WINDOW_SIZE from the peer (may lower the window below what is in flight)
			v := verifUint32("initialWindow")
			verifAssume(v <= 1<<31-1)
			for _, s := range g.streams {
				s.win += int64(v) - int64(l.oiws)
			}
			l.handle(&incomingSettings{ss: []http2.Setting{{ID: http2.SettingInitialWindowSize, Val: v}}})
		case 3: // trailers (server) queued behind any pending data
			s := g.streams[verifChoice("stream", 2)]
			if s.ended || s.trailers {
				continue
			}
			verifFieldSize = 10
			s.trailers = true
			l.handle(&serverHeaders{streamID: s.id, hf: []hpack.HeaderField{{Name: "grpc-status", Value: "0"}}, endStream: true,
				cleanup: &cleanupStream{streamID: s.id, onWrite: func() {}}})
		default: // one write round of the loop
			before := len(verifWrites)
			connBefore := g.conn
			var head *outStream
			if e := l.activeStreams.head.next; e != l.activeStreams.tail {
				head = e
			}
			idle, err := l.processData()
			verifAssert(err == nil, "write round succeeds")
			if verifProp == 3 {
				// run() blocks waiting for control frames when a round reports idle: that is only sound when no stream is
				// left that the writer could serve
				verifAssert(!idle || connBefore <= 0 || l.activeStreams.head.next == l.activeStreams.tail, "a write round reports \"nothing to write\" only when the connection window is exhausted or no active stream remains")
			}
			if verifProp == 3 && head != nil && connBefore > 0 {
				s := g.byID(head.id)
				progressed := len(verifWrites) > before
				verifAssert(progressed || (head.state == waitingOnStreamQuota && s.win <= 0),
					"with connection quota and an active stream, a write round sends a frame or parks the stream because its window is exhausted")
				if progressed {
					wrote = true
				} else {
					stalled = true
				}
			}
		}
		g.consume()
		g.checkLedger(l)
		if verifProp == 3 {
			g.checkInv(l)
		}
	}
	if verifProp == 3 {
		if wrote {
			verifCover("wrote")
		}
		if stalled {
			verifCover("parked-on-stream-quota")
		}
	}
	for _, s := range g.streams {
		if s.win < 0 {
			verifCover("negative-stream-window")
		}
	}
	verifCover("done")
}

// HEADERS / CONTINUATION fragmentation: every fragment at most 16384 bytes, END_HEADERS on the last
func verifH_C01_headers() {
	verifWrites, verifHdrWrites, verifRSTs = nil, nil, nil
	done := make(chan struct{})
	l := newLoopyWriter(serverSide, &framer{}, newControlBuffer(done), nil, nil, nil, nil, nil)
	verifLoopy = l
	wq := &writeQuota{}
	wq.init(1<<20, done)
	l.handle(&registerStream{streamID: 1, wq: wq})
	verifFieldSize = verifInt("blockSize")
	verifAssume(verifFieldSize >= 0 && verifFieldSize <= 40000)
	err := l.handle(&serverHeaders{streamID: 1, hf: []hpack.HeaderField{{Name: "k", Value: "v"}}})
	verifAssert(err == nil, "headers written")
	total := 0
	for i, h := range verifHdrWrites {
		verifAssert(h.size <= http2MaxFrameLen, "HEADERS / CONTINUATION fragment at most 16384 bytes")
		verifAssert(h.cont == (i > 0), "one HEADERS frame followed by CONTINUATION frames")
		verifAssert(h.endHeaders == (i == len(verifHdrWrites)-1), "END_HEADERS exactly on the last fragment")
		total += h.size
	}
	verifAssert(total == verifFieldSize && len(verifHdrWrites) >= 1, "fragments cover the whole header block")
	if len(verifHdrWrites) == 3 {
		verifCover("three-fragments")
	}
	verifCover("done")
}
