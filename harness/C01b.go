//go:build verif

// C01 (part b): the real framer.writeData puts an exact 9-byte HTTP/2 frame header in front of the payload.
//verif:pkg internal/transport
//verif:bound loop=64 steps=4000000
//verif:outside payload chunks longer than 3 bytes and more than 3 chunks per frame (the 24-bit length arithmetic is symbolic; only the copied byte counts are small); batch sizes other than 8 and 64 bytes
package transport

type verifSink struct{ out []byte }

func (s *verifSink) Write(b []byte) (int, error) {
	s.out = append(s.out, b...)
	return len(b), nil
}

func verifH_C01_frame() {
	sink := &verifSink{}
	batch := [...]int{8, 64}[verifChoice("batch", 2)]
	f := &framer{writer: newBufWriter(sink, batch, nil)}
	id := verifUint32("streamID")
	end := verifBool("endStream")
	nchunks := 1 + verifChoice("chunks", 3)
	var chunks [][]byte
	var all []byte
	for i := 0; i < nchunks; i++ {
		full := verifBytes("chunk", 3)
		verifAssume(len(full) == 3)
		c := full[:verifChoice("chunklen", 4)]
		chunks = append(chunks, c)
		all = append(all, c...)
	}
	err := f.writeData(id, end, chunks)
	verifAssert(err == nil, "frame written")
	f.writer.Flush()
	w := sink.out
	verifAssert(len(w) == 9+len(all), "exactly one header and the payload reach the connection")
	if len(w) < 9 {
		return
	}
	length := int(w[0])<<16 | int(w[1])<<8 | int(w[2])
	verifAssert(length == len(all), "24-bit length field equals the payload length")
	verifAssert(w[3] == 0, "frame type DATA")
	verifAssert((w[4] == 1) == end && (w[4] == 0) == !end, "END_STREAM flag exact, no other flag")
	got := uint32(w[5])<<24 | uint32(w[6])<<16 | uint32(w[7])<<8 | uint32(w[8])
	verifAssert(got == id, "stream identifier exact")
	for i := range all {
		verifAssert(w[9+i] == all[i], "payload bytes follow in order")
	}
	if len(all) > batch {
		verifCover("flushes-mid-frame")
	}
	verifCover("done")
}
