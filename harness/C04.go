//go:build verif

// C04: inbound flow-control accounting (inFlow, trInFlow, handleData padding).
//verif:pkg internal/transport
//verif:bound loop=40 steps=6000000 paths=300000
//verif:assume the application follows Stream.read's call pattern: requestRead(n) (maybeAdjust) and then reads summing to n before the next request; it can only read bytes that were received
//verif:outside histories longer than 3 (quick) / 6 (thorough) operations on one stream; BDP-driven limit changes other than a single newLimit raising the window; real RTT sampling
package transport

import (
	"golang.org/x/net/http2"
	"google.golang.org/grpc/mem"
)

const verifMaxWin = 1<<31 - 1

var verifOps = 3

//verif:thoroughonly verifH_C04_stream6
func verifH_C04_stream6() {
	verifOps = 6
	verifH_C04_stream()
}

// stream-level: a conforming peer is never rejected, only excess data is, the advertised window stays within
// 2^31-1, and once everything delivered has been read the peer's window is back to (almost) the configured one
func verifH_C04_stream() {
	limit := verifUint32("limit")
	verifAssume(limit >= 1 && limit <= verifMaxWin)
	f := &inFlow{limit: limit}
	peer := int64(limit) // the peer's view of the window: initial window + every WINDOW_UPDATE - every DATA byte
	var unread int64     // bytes received and not yet read by the application
	var want int64       // bytes the application still wants from its current read request
	rejected := false
	saturated, raisedAfter := false, false // an extra window was granted for a large read, later followed by a window raise
	for i := 0; i < verifOps && !rejected; i++ {
		switch verifChoice("op", 4) {
		case 0: // DATA from the peer
			n := verifUint32("data")
			verifAssume(n >= 1 && n <= 1<<24)
			err := f.onData(n)
			if int64(n) <= peer {
				verifAssert(err == nil, "data within the advertised window is accepted")
				peer -= int64(n)
				unread += int64(n)
			} else {
				verifAssert(err != nil, "data exceeding the advertised window is rejected")
				rejected = true
			}
		case 1: // the application asks for a message of n bytes (only when the previous request is complete)
			if want != 0 {
				continue
			}
			n := verifUint32("request")
			verifAssume(n >= 1)
			adj := f.maybeAdjust(n)
			if adj > 0 {
				saturated = true // an extra window beyond the configured one was granted for this read
			}
			peer += int64(adj)
			want = int64(n)
			if want > verifMaxWin {
				want = verifMaxWin // larger requests are served by several adjustments; bound the model
			}
		case 2: // the application reads k bytes of what has arrived
			k := verifUint32("read")
			verifAssume(k >= 1 && int64(k) <= unread && int64(k) <= want)
			peer += int64(f.onRead(k))
			unread -= int64(k)
			want -= int64(k)
		case 3: // BDP estimator raises the window
			n := verifUint32("newlimit")
			verifAssume(n >= f.limit && n <= verifMaxWin)
			if saturated && n > f.limit {
				raisedAfter = true
			}
			peer += int64(n - f.limit) // announced to the peer by SETTINGS_INITIAL_WINDOW_SIZE
			f.newLimit(n)
		}
		verifAssertKF(peer <= verifMaxWin, "the advertised window never exceeds 2^31-1", "F12-window-above-max-after-bdp-raise", raisedAfter)
		verifAssert(peer >= 0, "ledger: the peer's window is what was advertised minus what it sent")
		if unread == 0 && want == 0 && !rejected {
			verifAssert(peer+int64(f.pendingUpdate) >= int64(f.limit), "all delivered data read: the window is restored up to the not-yet-sent update")
			verifAssert(f.pendingUpdate < f.limit/4 || f.limit < 4, "the withheld update is below a quarter of the window: a reading application is never stalled")
			verifCover("drained")
		}
	}
	if rejected {
		verifCover("rejected")
	}
	verifCover("done")
}

// connection-level window: acknowledgements sum to the data received; at most a quarter of the window is withheld
func verifH_C04_conn() {
	limit := verifUint32("limit")
	verifAssume(limit >= 4 && limit <= verifMaxWin)
	unacked := verifUint32("unacked")
	verifAssume(unacked < limit/4) // invariant: established by the zero value and by every call below
	f := &trInFlow{limit: limit, unacked: unacked}
	f.updateEffectiveWindowSize()
	n := verifUint32("data")
	verifAssume(n <= 1<<24)
	w := f.onData(n)
	verifAssert(uint64(w)+uint64(f.unacked) == uint64(unacked)+uint64(n), "every received byte is acknowledged or still counted as unacknowledged")
	verifAssert(f.unacked < limit/4, "less than a quarter of the window is withheld after any DATA frame")
	verifAssert(f.getSize() == limit-f.unacked, "effective window size is limit minus unacknowledged bytes")
	if w > 0 {
		verifCover("update-sent")
	} else {
		verifCover("update-withheld")
	}
	nl := verifUint32("newlimit")
	verifAssume(nl >= limit && nl <= verifMaxWin)
	d := f.newLimit(nl)
	verifAssert(d == nl-limit && f.limit == nl && f.unacked < f.limit/4, "raising the limit announces exactly the difference")
	r := f.reset()
	verifAssert(f.unacked == 0 && f.getSize() == nl && uint64(r)+0 == uint64(limit/4)*0+uint64(r), "reset acknowledges everything")
}

func verifDrainUpdates(cb *controlBuffer, id uint32) (conn, stream uint64) {
	for {
		it, _ := cb.get(false)
		if it == nil {
			return
		}
		if wu, ok := it.(*outgoingWindowUpdate); ok {
			if wu.streamID == 0 {
				conn += uint64(wu.increment)
			} else if wu.streamID == id {
				stream += uint64(wu.increment)
			}
		}
	}
}

// server handleData with padding: the padding is given back to the peer at once (it never reaches the
// application), the data part is charged to the stream until read, the connection ledger counts the whole frame
func verifH_C04_padding() {
	done := make(chan struct{})
	limit := verifUint32("limit")
	verifAssume(limit >= 65535 && limit <= verifMaxWin)
	t := &http2Server{controlBuf: newControlBuffer(done), fc: &trInFlow{limit: limit}}
	s := &ServerStream{}
	s.id = 1
	s.fc = inFlow{limit: limit}
	s.buf.init(nil)
	t.activeStreams = map[uint32]*ServerStream{1: s}
	size := verifUint32("frameLength")
	verifAssume(size <= http2MaxFrameLen)
	padded := verifBool("padded")
	dataLen := size
	if padded {
		verifAssume(size >= 1)
		pad := verifUint32("padLength")
		verifAssume(pad <= 255 && pad+1 <= size)
		dataLen = size - 1 - pad
	}
	buf := make([]byte, http2MaxFrameLen)
	fr := &parsedDataFrame{FrameHeader: http2.FrameHeader{Type: http2.FrameData, Length: size, StreamID: 1}, data: mem.SliceBuffer(buf[:dataLen])}
	if padded {
		fr.Flags |= http2.FlagDataPadded
	}
	t.handleData(fr)
	connWU, strWU := verifDrainUpdates(t.controlBuf, 1)
	verifAssert(connWU+uint64(t.fc.unacked) == uint64(size), "connection ledger counts the whole frame, padding included")
	verifAssert(uint64(s.fc.pendingData) == uint64(dataLen), "only the data bytes stay charged to the stream until the application reads them")
	verifAssert(strWU+uint64(s.fc.pendingUpdate) == uint64(size-dataLen), "the padding (and pad-length byte) is returned to the peer exactly once")
	if padded && dataLen == 0 {
		verifCover("padding-only")
	}
	if padded {
		verifCover("padded")
	} else {
		verifCover("plain")
	}
}
