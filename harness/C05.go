//go:build verif

// C05: received bytes are delivered in order, exactly once, and end-of-stream / errors come after all earlier data
// (recvBuffer with compaction, recvBufferReader).
//verif:pkg internal/transport
//verif:bound loop=200 steps=8000000 paths=400000
//verif:assume end of stream / an error is put at most once per stream (guaranteed by the transports' stream-state transitions; a second error put would dereference a nil buffer)
//verif:outside the real ~57 KiB compaction threshold (lowered to 100 bytes through the package variable so that three tiny frames trigger compaction; the arithmetic that decides to compact is unchanged); histories longer than 6 (quick) / 7 (thorough) operations; frame payloads other than 0, 1, 2 or 60 bytes; concurrent producer and reader (the operations are atomic under the buffer's mutex; interleavings at operation granularity are what is explored)
package transport

import (
	"context"
	"io"

	"google.golang.org/grpc/internal/envconfig"
	"google.golang.org/grpc/mem"
)

type verifRBPool struct{}

func (verifRBPool) Get(n int) *[]byte { b := make([]byte, n); return &b }
func (verifRBPool) Put(*[]byte)       {}

var verifLens = [...]int{0, 1, 2, 60}

var verifC05Ops = 6

//verif:thoroughonly verifH_C05_sequence7
func verifH_C05_sequence7() {
	verifC05Ops = 7
	verifH_C05_sequence()
}

func verifRBInv(b *recvBuffer) {
	verifAssert(b.uncompactedSuffixLen >= 0 && b.uncompactedSuffixLen <= len(b.backlog), "compaction bookkeeping: suffix length within the backlog")
	sum := 0
	for i := len(b.backlog) - b.uncompactedSuffixLen; i >= 0 && i < len(b.backlog); i++ {
		verifAssert(b.backlog[i].buffer != nil, "compaction bookkeeping: the tracked suffix holds data messages only")
		if b.backlog[i].buffer != nil {
			sum += b.backlog[i].buffer.Len()
		}
	}
	verifAssert(b.uncompactedBytes == sum, "compaction bookkeeping: tracked byte count equals the bytes of the tracked suffix")
}

func verifH_C05_sequence() {
	saved := compactionThreshold
	compactionThreshold = 100
	savedEnv := envconfig.EnableReceiveBufferCompaction
	envconfig.EnableReceiveBufferCompaction = verifBool("compaction")
	rb := &recvBuffer{}
	rb.init(verifRBPool{})
	rd := &recvBufferReader{ctx: context.Background(), recv: rb}
	var sent []byte // every payload byte accepted, in arrival order
	tag := byte(1)
	delivered := 0
	ended := false      // EOF put
	endSeen := false    // reader saw EOF
	compacted := false
	for i := 0; i < verifC05Ops; i++ {
		switch verifChoice("op", 3) {
		case 0: // DATA frame arrives
			n := verifLens[verifChoice("len", 4)]
			buf := make([]byte, n)
			for j := range buf {
				buf[j] = tag
				tag++
			}
			before := len(rb.backlog)
			rb.put(recvMsg{buffer: mem.SliceBuffer(buf)})
			if !ended {
				sent = append(sent, buf...)
			}
			if len(rb.backlog) < before+1 && before > 0 {
				compacted = true
			}
		case 1: // end of stream arrives (the transport reports it at most once per stream: stream-state CAS)
			if ended {
				continue
			}
			rb.put(recvMsg{err: io.EOF})
			ended = true
		case 2: // the application reads up to n bytes (only when something is deliverable, else it would block)
			if !(delivered < len(sent) || (ended && !endSeen)) {
				continue
			}
			n := [...]int{1, 2, 64}[verifChoice("want", 3)]
			buf, err := rd.Read(n)
			if err != nil {
				verifAssert(err == io.EOF && ended, "only the reported end of stream surfaces as an error")
				verifAssert(delivered == len(sent), "end of stream is reported only after all data that arrived before it")
				endSeen = true
				_, err2 := rd.Read(1)
				verifAssert(err2 == io.EOF, "nothing is delivered after the end of stream")
			} else {
				d := buf.ReadOnlyData()
				verifAssert(len(d) <= n, "a read never returns more than was asked for")
				for j := range d {
					verifAssert(delivered+j < len(sent) && d[j] == sent[delivered+j], "delivered bytes are exactly the received bytes, in order, none lost or duplicated")
				}
				delivered += len(d)
				buf.Free()
			}
		}
		verifRBInv(rb)
	}
	compactionThreshold = saved
	envconfig.EnableReceiveBufferCompaction = savedEnv
	if compacted {
		verifCover("compacted")
	}
	if endSeen {
		verifCover("end-of-stream-read")
	}
	verifCover("done")
}
