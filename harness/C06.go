//go:build verif

// C06: message framing round-trips and receive-size limits are enforced.
//verif:pkg .
//verif:bound loop=40 steps=6000000
//verif:stub compress/gzip.NewReader => verifStubGzipNewReader
//verif:stub (*compress/gzip.Reader).Read => verifStubGzipRead
//verif:stub (*compress/gzip.Reader).Close => verifStubGzipClose
//verif:noreplay-stubbed
//verif:outside the gzip codec itself (compress/gzip is replaced by a reader yielding an arbitrary number of bytes; the size-limiting wrappers around it are executed for real); decompressed sizes above 6 bytes; real transports feeding the parser
package grpc

import (
	"compress/gzip"
	"io"
	"math"

	"google.golang.org/grpc/codes"
	"google.golang.org/grpc/encoding"
	"google.golang.org/grpc/mem"
	"google.golang.org/grpc/status"
)

// ---- payload-format table ----
func verifH_C06_flag() {
	pf := payloadFormat(verifUint8("pf"))
	name := [...]string{"", "identity", "gzip"}[verifChoice("encoding", 3)]
	have, isServer := verifBool("haveCompressor"), verifBool("isServer")
	st := checkRecvPayload(pf, name, have, isServer)
	switch {
	case pf == compressionNone:
		verifAssert(st == nil, "uncompressed flag accepted")
		verifCover("plain")
	case pf == compressionMade && name == "gzip" && have:
		verifAssert(st == nil, "compressed flag with a usable decompressor accepted")
		verifCover("compressed")
	case pf == compressionMade && name == "gzip" && isServer:
		verifAssert(st != nil && st.Code() == codes.Unimplemented, "server without the decompressor: UNIMPLEMENTED")
		verifCover("unimplemented")
	default:
		verifAssert(st != nil && st.Code() == codes.Internal, "compressed flag without encoding/decompressor, or unknown flag value: INTERNAL, never a silently misdecoded message")
		verifCover("internal")
	}
}

// ---- header round trip ----
type verifLenBuf struct {
	mem.Buffer
	n int
}

func (b verifLenBuf) Len() int { return b.n }

type verifHdrReader struct {
	hdr   []byte
	asked int
}

func (r *verifHdrReader) ReadMessageHeader(h []byte) error { copy(h, r.hdr); return nil }
func (r *verifHdrReader) Read(n int) (mem.BufferSlice, error) {
	r.asked = n
	return nil, nil
}

func verifH_C06_header() {
	n := verifInt("len")
	verifAssume(n >= 0 && n <= math.MaxUint32) // encode() rejects larger messages
	m := verifInt("complen")
	verifAssume(m >= 0 && m <= math.MaxUint32)
	compressed := verifBool("compressed")
	pf := compressionNone
	if compressed {
		pf = compressionMade
	}
	data := mem.BufferSlice{verifLenBuf{n: n}}
	comp := mem.BufferSlice{verifLenBuf{n: m}}
	hdr, payload := msgHeader(data, comp, pf)
	want := n
	if compressed {
		want = m
	}
	verifAssert(len(hdr) == 5 && payload.Len() == want, "header is 5 bytes; payload is the compressed data iff the flag is set")
	rd := &verifHdrReader{hdr: hdr}
	p := &parser{r: rd}
	gotPF, _, err := p.recvMsg(math.MaxInt)
	verifAssert(err == nil && gotPF == pf && rd.asked == want, "the receiver reads back the same flag and exactly the payload length")
	verifCover("done")
}

// ---- decompression limit ----
type verifSrc struct {
	total, delivered int
	maxChunk         int
}

func (s *verifSrc) Read(p []byte) (int, error) {
	rem := s.total - s.delivered
	if rem == 0 {
		return 0, io.EOF
	}
	n := rem
	if n > len(p) {
		n = len(p)
	}
	if n > s.maxChunk {
		n = s.maxChunk
	}
	s.delivered += n
	return n, nil
}

type verifComp struct{ src *verifSrc }

func (c verifComp) Compress(w io.Writer) (io.WriteCloser, error) { return nil, nil }
func (c verifComp) Decompress(r io.Reader) (io.Reader, error)    { return c.src, nil }
func (c verifComp) Name() string                                  { return "x" }

var _ encoding.Compressor = verifComp{}

type verifLegacy struct{ src *verifSrc }

func (d verifLegacy) Do(r io.Reader) ([]byte, error) { return io.ReadAll(d.src) }
func (d verifLegacy) Type() string                  { return "x" }

var verifGzipSrc *verifSrc

func verifStubGzipNewReader(r io.Reader) (*gzip.Reader, error) { return &gzip.Reader{}, nil }
func verifStubGzipRead(z *gzip.Reader, p []byte) (int, error)  { return verifGzipSrc.Read(p) }
func verifStubGzipClose(z *gzip.Reader) error                  { return nil }

func verifH_C06_decompress() {
	src := &verifSrc{total: verifChoice("total", 7), maxChunk: 1 + verifChoice("chunk", 3)}
	limit := verifInt("limit")
	verifAssume(limit >= 0)
	if verifBool("unlimited") {
		limit = math.MaxInt
	} else {
		verifAssume(limit <= 8)
	}
	in := mem.BufferSlice{mem.SliceBuffer([]byte{1, 2, 3})}
	var out mem.BufferSlice
	var err error
	kind := verifChoice("kind", 3)
	switch kind {
	case 0: // encoding.Compressor
		out, err = decompress(verifComp{src}, in, nil, limit, mem.DefaultBufferPool())
	case 1: // built-in legacy gzip decompressor (gzip itself stubbed)
		verifGzipSrc = src
		out, err = decompress(nil, in, NewGZIPDecompressor(), limit, mem.DefaultBufferPool())
	case 2: // third-party legacy Decompressor
		out, err = decompress(nil, in, verifLegacy{src}, limit, mem.DefaultBufferPool())
	}
	if src.total > limit {
		verifAssert(err != nil && status.Code(err) == codes.ResourceExhausted, "decompressed size above the limit: RESOURCE_EXHAUSTED")
		if kind != 2 {
			verifAssert(src.delivered <= limit+1, "never materializes more than limit+1 decompressed bytes")
		}
		verifCover("too-large")
	} else {
		verifAssert(err == nil && out.Len() == src.total, "message within the limit delivered with its full length")
		if limit == math.MaxInt {
			verifCover("unlimited")
		}
		verifCover("ok")
	}
}
