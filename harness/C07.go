//go:build verif

// C07: grpc-timeout encoding never shortens a deadline and always decodes.
//
// The decimal formatter strconv.FormatInt is replaced, in the round-trip harness only, by an
// arithmetic reference (verifRefFormatInt: repeated division by ten). The real FormatInt is
// compared against that reference symbolically for every q < 10000 (C07b.go, verifH_C07_strconv) and the
// decimal parser strconv.ParseUint always runs from its real source.
//
//verif:pkg internal/transport
//verif:bound loop=24 steps=400000
//verif:solver cvc5int
//verif:stub strconv.FormatInt => verifRefFormatInt
//verif:assume strconv.FormatInt(q,10) equals the arithmetic reference formatter for q >= 10000 (checked symbolically below 10000, and natively on witnesses)
//verif:outside strings longer than 10 bytes handed to decodeTimeout (the size check rejects anything above 9 before parsing)
package transport

import (
	"time"

	"google.golang.org/grpc/internal/grpcutil"
)

// verifRefFormatInt is the reference decimal formatter for non-negative values (base 10 only):
// repeated division by ten, most significant digit first.
func verifRefFormatInt(q int64, base int) string {
	verifAssume(base == 10 && q >= 0)
	n := 1
	for r := q / 10; r > 0; r /= 10 {
		n++
	}
	b := make([]byte, n)
	r := q
	for i := n - 1; i >= 0; i-- {
		b[i] = byte('0' + r%10)
		r /= 10
	}
	return string(b)
}

func verifUnitNanos(u byte) int64 {
	switch u {
	case 'H':
		return int64(time.Hour)
	case 'M':
		return int64(time.Minute)
	case 'S':
		return int64(time.Second)
	case 'm':
		return int64(time.Millisecond)
	case 'u':
		return int64(time.Microsecond)
	case 'n':
		return 1
	}
	return 0
}

// round trip: every positive duration encodes to <=8 digits + unit, decodes, and is never shortened
// nor lengthened by a full unit.
func verifH_C07_roundtrip() {
	d := time.Duration(verifInt64("d"))
	verifAssume(d > 0)
	s := grpcutil.EncodeDuration(d)
	verifAssert(len(s) >= 2 && len(s) <= 9, "1..8 digits plus unit")
	u := s[len(s)-1]
	unit := verifUnitNanos(u)
	verifAssert(unit != 0, "unit in HMSmun")
	for i := 0; i < len(s)-1; i++ {
		verifAssert(s[i] >= '0' && s[i] <= '9', "digits only")
	}
	got, err := decodeTimeout(s)
	verifAssert(err == nil, "decodes")
	verifAssert(got >= d, "never shortens")
	// got >= d holds from here on, so the subtraction cannot wrap
	verifAssert(uint64(got)-uint64(d) < uint64(unit) || got == time.Duration(1<<63-1), "exceeds by less than one unit (or clamps at max)")
	verifCover("roundtrip")
}

func verifH_C07_nonpositive() {
	d := time.Duration(verifInt64("d"))
	verifAssume(d <= 0)
	s := grpcutil.EncodeDuration(d)
	verifAssert(s == "0n", "non-positive encodes as 0n")
	got, err := decodeTimeout(s)
	verifAssert(err == nil && got == 0, "0n decodes to zero")
	verifObserveStr("enc", s)
	verifCover("nonpositive")
}

// decode is total on arbitrary strings: no panic, never negative, accepts exactly [0-9]{1,8}[HMSmun].
func verifH_C07_decode() {
	s := verifString("s", 10)
	got, err := decodeTimeout(s)
	wellFormed := len(s) >= 2 && len(s) <= 9 && verifUnitNanos(s[len(s)-1]) != 0
	if wellFormed {
		for i := 0; i < len(s)-1; i++ {
			if s[i] < '0' || s[i] > '9' {
				wellFormed = false
			}
		}
	}
	verifAssert((err == nil) == wellFormed, "accepted iff [0-9]{1,8}[HMSmun]")
	if err == nil {
		verifAssert(got >= 0, "decoded timeout never negative")
		verifObserveStr("s", s)
		verifObserveInt("dec", int64(got))
		verifCover("accepted")
	} else {
		verifCover("rejected")
	}
}
