//go:build verif

// C07 (support): the real strconv.FormatInt agrees with the arithmetic reference formatter used as
// its stand-in by C07.go, for every value below 10000, and the real ParseUint inverts it.
//verif:pkg internal/transport
//verif:bound loop=24 steps=400000
//verif:thoroughonly verifH_C07_strconv
package transport

import "strconv"

func verifRefFormatIntB(q int64) string {
	n := 1
	for r := q / 10; r > 0; r /= 10 {
		n++
	}
	b := make([]byte, n)
	r := q
	for i := n - 1; i >= 0; i-- {
		b[i] = byte('0' + r%10)
		r /= 10
	}
	return string(b)
}

func verifH_C07_strconv() {
	q := verifInt64("q")
	verifAssume(q >= 0 && q < 10000)
	real := strconv.FormatInt(q, 10)
	ref := verifRefFormatIntB(q)
	verifAssert(real == ref, "strconv.FormatInt equals reference formatter")
	back, err := strconv.ParseUint(real, 10, 64)
	verifAssert(err == nil && int64(back) == q, "ParseUint inverts FormatInt")
	verifObserveStr("real", real)
	verifCover("strconv")
}
