//go:build verif

// C08: grpc-message percent-encoding is a lossless printable-ASCII round trip.
//verif:pkg internal/transport
//verif:bound loop=40 steps=2000000
//verif:quick paths=60000
//verif:thorough paths=2000000
//verif:outside messages longer than 3 bytes (quick) / 4 bytes (thorough); header values longer than 5 (quick) / 6 bytes (thorough)
package transport

import "unicode/utf8"

// verifRefValid is the reference: every byte that does not start a valid UTF-8 encoding is
// replaced by U+FFFD, everything else is copied.
func verifRefValid(m string) string {
	out := make([]byte, 0, 3*len(m))
	for len(m) > 0 {
		r, size := utf8.DecodeRuneInString(m)
		if r == utf8.RuneError && size == 1 {
			out = append(out, 0xEF, 0xBF, 0xBD)
		} else {
			out = append(out, m[:size]...)
		}
		m = m[size:]
	}
	return string(out)
}

func verifRoundTrip(m string) {
	enc := encodeGrpcMessage(m)
	for i := 0; i < len(enc); i++ {
		verifAssert(enc[i] >= 0x20 && enc[i] <= 0x7e, "encoded value is printable ASCII")
	}
	dec := decodeGrpcMessage(enc)
	want := verifRefValid(m)
	verifAssert(dec == want, "decode(encode(m)) is m with invalid bytes replaced by U+FFFD")
	if utf8.ValidString(m) {
		verifAssert(dec == m, "valid UTF-8 round-trips unchanged")
		verifObserveStr("enc", enc)
		verifCover("valid-roundtrip")
	} else {
		verifObserveStr("enc", enc)
		verifCover("invalid-replaced")
	}
}

func verifH_C08_roundtrip3() {
	verifRoundTrip(verifString("m", 3))
}

//verif:thoroughonly verifH_C08_roundtrip4
func verifH_C08_roundtrip4() {
	m := verifString("m", 4)
	verifAssume(len(m) == 4)
	verifRoundTrip(m)
}

// decoding arbitrary header values never panics and only rewrites well-formed %XX triples.
func verifH_C08_decode5() {
	h := verifString("h", 5)
	dec := decodeGrpcMessage(h)
	verifAssert(len(dec) <= len(h), "decoding never grows the value")
	pct := false
	for i := 0; i < len(h); i++ {
		if h[i] == '%' {
			pct = true
		}
	}
	if !pct {
		verifAssert(dec == h, "values without %% are unchanged")
		verifCover("plain")
	} else {
		verifObserveStr("dec", dec)
		verifCover("percent")
	}
}

//verif:thoroughonly verifH_C08_decode6
func verifH_C08_decode6() {
	h := verifString("h", 6)
	verifAssume(len(h) == 6)
	dec := decodeGrpcMessage(h)
	verifAssert(len(dec) <= len(h), "decoding never grows the value")
	verifCover("decoded6")
}
