//go:build verif

// C09 (part a): validation of user metadata (internal/metadata.ValidatePair).
//verif:pkg internal/metadata
//verif:bound loop=32 steps=2000000
//verif:outside keys longer than 3 (quick) / 4 (thorough) arbitrary bytes (plus the -bin suffix case) and values longer than 2 / 3 bytes; more than 2 values per key
package metadata

func verifKeyChar(r byte) bool {
	return (r >= 'a' && r <= 'z') || (r >= '0' && r <= '9') || r == '.' || r == '-' || r == '_'
}

func verifH_C09_validate() { verifValidate(3, 1, "") }

// keys ending in -bin: one arbitrary leading byte (or none) followed by the suffix
func verifH_C09_validate_bin() { verifValidate(1, 2, "-bin") }

//verif:thoroughonly verifH_C09_validate_long
func verifH_C09_validate_long() { verifValidate(4, 3, "") }

func verifValidate(maxKey, maxVal int, suffix string) {
	key := verifString("key", maxKey) + suffix
	nv := 1 + verifChoice("nvals", 2)
	vals := make([]string, nv)
	for i := range vals {
		vals[i] = verifString("val", maxVal)
	}
	err := ValidatePair(key, vals...)
	keyOK := len(key) > 0
	if keyOK && key[0] != ':' {
		for i := 0; i < len(key); i++ {
			if !verifKeyChar(key[i]) {
				keyOK = false
			}
		}
	}
	n := len(key)
	isBin := n >= 4 && key[n-4] == '-' && key[n-3] == 'b' && key[n-2] == 'i' && key[n-1] == 'n'
	valOK := true
	if !isBin {
		for _, v := range vals {
			for i := 0; i < len(v); i++ {
				if v[i] < 0x20 || v[i] > 0x7E {
					valOK = false
				}
			}
		}
	}
	verifAssert((err == nil) == (keyOK && valOK), "accepted exactly when the key is in [0-9a-z-_.]+ (or a pseudo-header) and every value is printable ASCII (any bytes for -bin keys)")
	if err == nil {
		if isBin {
			verifCover("bin-accepted")
		}
		verifCover("accepted")
	} else {
		verifCover("rejected")
	}
}
