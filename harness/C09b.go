//go:build verif

// C09 (part b): metadata header encoding, reserved names, header-field construction on both sides.
//verif:pkg internal/transport
//verif:bound loop=64 steps=6000000
//verif:outside hpack coding and the HTTP/2 framer (third-party); binary values longer than 3 (quick) / 4 (thorough) bytes; end-to-end delivery through sockets; the receive-side filtering in operateHeaders is covered by the C10/C12 checks where claimed
package transport

import (
	"context"
	"encoding/base64"

	"golang.org/x/net/http2/hpack"
	"google.golang.org/grpc/metadata"
)

// -bin values survive the wire encoding: encode then decode gives the same bytes, and a peer's padded
// encoding decodes to the same bytes as the unpadded one
func verifH_C09_bin() { verifBin(3) }

//verif:thoroughonly verifH_C09_bin4
func verifH_C09_bin4() { verifBin(4) }

func verifBin(max int) {
	v := verifString("v", max)
	enc := encodeMetadataHeader("k-bin", v)
	for i := 0; i < len(enc); i++ {
		c := enc[i]
		verifAssert((c >= 'A' && c <= 'Z') || (c >= 'a' && c <= 'z') || (c >= '0' && c <= '9') || c == '+' || c == '/', "encoded -bin value is unpadded base64")
	}
	dec, err := decodeMetadataHeader("k-bin", enc)
	verifAssert(err == nil && dec == v, "decode(encode(v)) == v for -bin keys")
	padded := base64.StdEncoding.EncodeToString([]byte(v))
	dec2, err2 := decodeMetadataHeader("k-bin", padded)
	verifAssert(err2 == nil && dec2 == v, "a peer's padded base64 decodes to the same bytes")
	plain := encodeMetadataHeader("k", v)
	verifAssert(plain == v, "non -bin values are sent verbatim")
	d3, e3 := decodeMetadataHeader("k", v)
	verifAssert(e3 == nil && d3 == v, "non -bin values are received verbatim")
	verifObserveStr("v", v)
	if len(v) == 2 {
		verifCover("len2")
	}
	verifCover("done")
}

var verifReservedNames = [...]string{"content-type", "user-agent", "grpc-message-type", "grpc-encoding", "grpc-message", "grpc-status", "grpc-timeout", "te"}

func verifRefReserved(h string) bool {
	if len(h) > 0 && h[0] == ':' {
		return true
	}
	for _, r := range verifReservedNames {
		if h == r {
			return true
		}
	}
	return false
}

func verifH_C09_reserved() {
	h := verifString("h", 17)
	verifAssert(isReservedHeader(h) == verifRefReserved(h), "reserved exactly for pseudo-headers and the transport's own header names")
	if verifRefReserved(h) {
		verifCover("reserved")
	} else {
		verifCover("free")
	}
}

var verifKeys = [...]string{"content-type", "user-agent", "grpc-message-type", "grpc-encoding", "grpc-message", "grpc-status", "grpc-timeout", "te", ":path", ":authority", "x", "y-bin", "grpc-previous-rpc-attempts"}

// server side: user headers/trailers are emitted with per-key order preserved, reserved names never
func verifH_C09_serversend() {
	k1 := verifKeys[verifChoice("k1", len(verifKeys))]
	v1, v2 := verifString("v1", 2), verifString("v2", 2)
	md := metadata.MD{k1: []string{v1, v2}, "zz": []string{"w"}}
	out := appendHeaderFieldsFromMD([]hpack.HeaderField{{Name: ":status", Value: "200"}}, md)
	verifAssert(len(out) >= 1 && out[0].Name == ":status", "existing fields are kept first")
	var got []string
	zz := 0
	for _, f := range out[1:] {
		verifAssert(!verifRefReserved(f.Name), "a reserved name from user metadata is never emitted")
		if f.Name == k1 {
			d, err := decodeMetadataHeader(k1, f.Value)
			verifAssert(err == nil, "emitted value decodes")
			got = append(got, d)
		} else if f.Name == "zz" {
			zz++
		}
	}
	verifAssert(zz == 1, "other keys unaffected")
	if verifRefReserved(k1) {
		verifAssert(len(got) == 0, "reserved key dropped")
		verifCover("dropped")
	} else {
		verifAssert(len(got) == 2 && got[0] == v1 && got[1] == v2, "values emitted in order and decode to the originals")
		verifCover("emitted")
	}
}

// client side: createHeaderFields never emits a reserved name from user metadata (base map or appended pairs,
// appended keys lower-cased), keeps per-key value order (base values first, then appended)
func verifH_C09_clientsend() {
	k1 := verifKeys[verifChoice("k1", len(verifKeys))]
	v1, v2 := verifString("v1", 2), verifString("v2", 2)
	ctx := metadata.NewOutgoingContext(context.Background(), metadata.MD{k1: []string{v1}})
	upper := verifBool("upper")
	ak := k1
	if upper && k1 == "x" {
		ak = "X"
	}
	ctx = metadata.AppendToOutgoingContext(ctx, ak, v2)
	t := &http2Client{scheme: "http", userAgent: "ua"}
	hf, err := t.createHeaderFields(ctx, &CallHdr{Method: "/s/m", Host: "h"})
	verifAssert(err == nil, "header fields created")
	seen := map[string]int{}
	var got []string
	for _, f := range hf {
		seen[f.Name]++
		for i := 0; i < len(f.Name); i++ {
			verifAssert(f.Name[i] < 'A' || f.Name[i] > 'Z', "no upper-case header names on the wire")
		}
		if f.Name == k1 && !verifRefReserved(k1) {
			d, derr := decodeMetadataHeader(k1, f.Value)
			verifAssert(derr == nil, "emitted value decodes")
			got = append(got, d)
		}
	}
	for _, r := range verifReservedNames {
		if r == "content-type" || r == "user-agent" || r == "te" {
			verifAssert(seen[r] == 1, "transport's own header emitted exactly once (not duplicated from user metadata)")
		} else {
			verifAssert(seen[r] == 0, "reserved name never emitted from user metadata")
		}
	}
	verifAssert(seen[":path"] == 1 && seen[":authority"] == 1, "pseudo-headers only from the transport")
	if !verifRefReserved(k1) {
		verifAssert(len(got) == 2 && got[0] == v1 && got[1] == v2, "base value then appended value, in order")
		verifCover("emitted")
	} else {
		verifCover("dropped")
	}
}
