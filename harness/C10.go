//go:build verif

// C10: a handler's status (code and message) reaches the client unchanged: http2Server.writeStatus composed with
// http2Client.operateHeaders at the header-field level.
//verif:pkg internal/transport
//verif:bound loop=64 steps=8000000 paths=600000
//verif:stub (*google.golang.org/grpc/internal/transport.http2Client).closeStream => verifStubClientCloseStream
//verif:noreplay-stubbed
//verif:outside hpack coding and HTTP/2 framing between the two sides (the header-field list written by the server is handed to the client as is); status details (grpc-status-details-bin needs protobuf marshalling, which is reflection-based and not encodable: statuses without details only); status codes other than the listed ones; messages longer than 2 bytes (the percent-encoding round trip itself is decided by C08; here the wiring of both ends is)
package transport

import (
	"golang.org/x/net/http2"
	"golang.org/x/net/http2/hpack"
	"google.golang.org/grpc/codes"
	"google.golang.org/grpc/metadata"
	"google.golang.org/grpc/status"
)

var (
	verifClosed    int
	verifClosedSt  *status.Status
	verifClosedErr error
	verifClosedMD  map[string][]string
)

func verifStubClientCloseStream(t *http2Client, s *ClientStream, err error, rst bool, rstCode http2.ErrCode, st *status.Status, mdata map[string][]string, eosReceived bool) {
	verifClosed++
	verifClosedSt, verifClosedErr, verifClosedMD = st, err, mdata
}

var verifCodes = [...]uint32{0, 1, 2, 5, 13, 14, 16, 17, 100, 1<<31 - 1, 1 << 31, 1<<32 - 1}

func verifH_C10_status() {
	verifClosed = 0
	code := codes.Code(verifCodes[verifChoice("code", len(verifCodes))])
	msg := verifString("message", 2)
	headersSent := verifBool("headers-already-sent")
	withTrailer := verifBool("user-trailer")

	// server side
	done := make(chan struct{})
	srv := &http2Server{controlBuf: newControlBuffer(done), done: done, activeStreams: map[uint32]*ServerStream{}}
	ss := &ServerStream{st: srv, cancel: func() {}}
	ss.id = 1
	srv.activeStreams[1] = ss
	if headersSent {
		ss.updateHeaderSent()
	}
	if withTrailer {
		ss.trailer = metadata.MD{"k": []string{"v"}, "grpc-status": []string{"9"}}
	}
	err := srv.writeStatus(ss, status.New(code, msg))
	verifAssert(err == nil, "status written")
	var hf []hpack.HeaderField
	found := 0
	for {
		it, _ := srv.controlBuf.get(false)
		if it == nil {
			break
		}
		if h, ok := it.(*serverHeaders); ok {
			verifAssert(h.endStream && h.streamID == 1, "trailers end the stream")
			hf = h.hf
			found++
		}
	}
	verifAssert(found == 1, "exactly one trailers frame is queued")
	nStatus := 0
	for _, f := range hf {
		if f.Name == "grpc-status" {
			nStatus++
		}
		for i := 0; i < len(f.Value); i++ {
			verifAssert(f.Value[i] >= 0x20 && f.Value[i] <= 0x7E, "header values on the wire are printable ASCII")
		}
	}
	verifAssert(nStatus == 1, "exactly one grpc-status header, not overridable from user trailers")

	// client side
	cdone := make(chan struct{})
	cl := &http2Client{controlBuf: newControlBuffer(cdone), activeStreams: map[uint32]*ClientStream{}}
	cs := &ClientStream{done: make(chan struct{}), headerChan: make(chan struct{})}
	cs.id = 1
	if headersSent { // the client saw the response headers earlier
		cs.headerChanClosed = 1
		close(cs.headerChan)
	}
	cl.activeStreams[1] = cs
	frame := &http2.MetaHeadersFrame{HeadersFrame: &http2.HeadersFrame{FrameHeader: http2.FrameHeader{Type: http2.FrameHeaders, StreamID: 1,
		Flags: http2.FlagHeadersEndHeaders | http2.FlagHeadersEndStream}}, Fields: hf}
	cl.operateHeaders(frame)
	verifAssert(verifClosed == 1 && verifClosedSt != nil, "the client ends the stream exactly once, with a status")
	if verifClosed != 1 || verifClosedSt == nil {
		return
	}
	outOfInt32 := uint32(code) >= 1<<31
	verifAssertKF(verifClosedSt.Code() == code, "the client observes exactly the code the handler returned",
		"F9-status-code-above-int32", outOfInt32)
	if !outOfInt32 {
		verifAssert(verifClosedSt.Message() == decodeGrpcMessage(encodeGrpcMessage(msg)), "and the message as carried by the grpc-message encoding (whose round trip is property C08)")
		verifAssert((verifClosedSt.Err() == nil) == (code == codes.OK), "an error is reported exactly for non-OK codes")
		if withTrailer {
			verifAssert(len(verifClosedMD["k"]) == 1 && verifClosedMD["k"][0] == "v", "user trailers arrive")
			verifAssert(len(verifClosedMD["grpc-status"]) == 0, "reserved names never surface as user metadata")
		}
	}
	verifObserveStr("message", msg)
	if code == codes.OK {
		verifCover("ok")
	} else {
		verifCover("error-status")
	}
}
