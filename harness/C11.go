//go:build verif

// C11: a misbehaving server can never crash or hang the client transport.
//verif:pkg internal/transport
//verif:bound loop=64 steps=8000000 preempt=0 paths=1500000
//verif:stub (*google.golang.org/grpc/internal/transport.http2Client).readServerPreface => verifStubPreface
//verif:stub (*google.golang.org/grpc/internal/transport.framer).readFrame => verifStubReadFrame
//verif:stub (*google.golang.org/grpc/internal/transport.framer).errorDetail => verifStubErrorDetail
//verif:noop google.golang.org/grpc/internal/channelz.RemoveEntry
//verif:noop (*google.golang.org/grpc/internal/grpclog.PrefixLogger).Infof
//verif:noop (*google.golang.org/grpc/internal/grpclog.PrefixLogger).Warningf
//verif:noop (*google.golang.org/grpc/internal/grpclog.PrefixLogger).Errorf
//verif:noop (*google.golang.org/grpc/internal/grpclog.PrefixLogger).V
//verif:noop (*google.golang.org/grpc/grpclog.componentData).V
//verif:noop (*google.golang.org/grpc/grpclog.componentData).Infof
//verif:noop (*google.golang.org/grpc/grpclog.componentData).Warningf
//verif:noop (*google.golang.org/grpc/grpclog.componentData).Errorf
//verif:noreplay stubbed (frame source) : witnesses are re-executed deterministically in the engine from the recorded decision prefix
//verif:outside raw bytes: the HTTP/2 frame parser and hpack decoder are third-party code behind framer.readFrame, so the input is an arbitrary sequence of DECODED frames (2 frames, then the connection ends; 1 active stream quick / 2 thorough) with symbolic stream ids, lengths, flags, error codes, window increments, settings and 13 header lists; the loopy writer and keepalive goroutines (not started); deadlines (no timer is involved in frame handling); more than 2 streams; grpc-message values longer than 6 bytes
package transport

import (
	"context"
	"io"
	"net"
	"time"

	"golang.org/x/net/http2"
	"golang.org/x/net/http2/hpack"
	"google.golang.org/grpc/internal/channelz"
	"google.golang.org/grpc/mem"
)

type verifConn struct{ closed int }

func (c *verifConn) Read([]byte) (int, error)         { return 0, io.EOF }
func (c *verifConn) Write(b []byte) (int, error)      { return len(b), nil }
func (c *verifConn) Close() error                     { c.closed++; return nil }
func (c *verifConn) LocalAddr() net.Addr              { return nil }
func (c *verifConn) RemoteAddr() net.Addr             { return nil }
func (c *verifConn) SetDeadline(time.Time) error      { return nil }
func (c *verifConn) SetReadDeadline(time.Time) error  { return nil }
func (c *verifConn) SetWriteDeadline(time.Time) error { return nil }

var (
	verifFramesLeft int
	verifFrameLog   []string
)

func verifStubPreface(t *http2Client) error { return nil }
func verifStubErrorDetail(f *framer) error  { return nil }

func hf(kv ...string) []hpack.HeaderField {
	var out []hpack.HeaderField
	for i := 0; i+1 < len(kv); i += 2 {
		out = append(out, hpack.HeaderField{Name: kv[i], Value: kv[i+1]})
	}
	return out
}

// header lists chosen to reach the distinct validation paths of operateHeaders
var verifHeaderLists = [...][]hpack.HeaderField{
	hf(":status", "200", "content-type", "application/grpc"),
	hf(":status", "200", "content-type", "application/grpc", "grpc-status", "0"),
	hf("grpc-status", "14", "grpc-message", "%41%4"),
	hf("grpc-status", "x"),
	hf("grpc-status", "4294967296", "grpc-message", "a%zz%"),
	hf(":status", "404", "content-type", "text/html"),
	hf(":status", "1xx", "content-type", "application/grpc"),
	hf(":status", "100"),
	hf(),
	hf("content-type", "application/grpc+proto", "grpc-status", "0", "grpc-status", "0"),
	hf(":status", "200", "content-type", "application/grpc", "grpc-message", "\xff", "grpc-status", "-1"),
	hf(":status", "200", "content-type", "application/grpc", "x-bin", "!!", "grpc-encoding", "gzip"),
	hf(":status", "200", "content-type", "", "grpc-tags-bin", "", ":path", "/x"),
}

func verifHeaderList() []hpack.HeaderField {
	return verifHeaderLists[verifChoice("header-list", len(verifHeaderLists))]
}

// the frame source: an arbitrary decoded frame, then end of connection
func verifStubReadFrame(f *framer) (any, error) {
	if verifFramesLeft == 0 {
		return nil, io.EOF
	}
	verifFramesLeft--
	id := [...]uint32{0, 1, 3, 5}[verifChoice("stream-id", 4)]
	switch verifChoice("frame-type", 8) {
	case 0:
		verifFrameLog = append(verifFrameLog, "HEADERS")
		fr := &http2.MetaHeadersFrame{HeadersFrame: &http2.HeadersFrame{}, Fields: verifHeaderList(), Truncated: verifBool("truncated")}
		fr.HeadersFrame.FrameHeader = http2.FrameHeader{Type: http2.FrameHeaders, StreamID: id}
		if verifBool("END_STREAM") {
			fr.HeadersFrame.FrameHeader.Flags |= http2.FlagHeadersEndStream
		}
		verifSetField(fr.HeadersFrame, "FrameHeader.valid", true)
		return fr, nil
	case 1:
		verifFrameLog = append(verifFrameLog, "DATA")
		size := verifUint32("data-frame-length")
		verifAssume(size <= 1<<24)
		dataLen := verifChoice("data-len", 3) // payload after padding removal
		verifAssume(uint32(dataLen) <= size)
		fr := &parsedDataFrame{FrameHeader: http2.FrameHeader{Type: http2.FrameData, Length: size, StreamID: id}, data: mem.SliceBuffer(make([]byte, dataLen))}
		if verifBool("END_STREAM") {
			fr.FrameHeader.Flags |= http2.FlagDataEndStream
		}
		if uint32(dataLen) < size {
			fr.FrameHeader.Flags |= http2.FlagDataPadded
		}
		return fr, nil
	case 2:
		verifFrameLog = append(verifFrameLog, "RST_STREAM")
		fr := &http2.RSTStreamFrame{FrameHeader: http2.FrameHeader{Type: http2.FrameRSTStream, StreamID: id}, ErrCode: http2.ErrCode(verifUint32("rst-code"))}
		verifSetField(fr, "FrameHeader.valid", true)
		return fr, nil
	case 3:
		verifFrameLog = append(verifFrameLog, "SETTINGS")
		sid, val := uint16(verifChoice("setting-id", 8)), verifUint32("setting-value")
		fr := &http2.SettingsFrame{}
		if verifBool("settings-ack") {
			fr.FrameHeader.Flags |= http2.FlagSettingsAck
		}
		verifSetField(fr, "FrameHeader.valid", true)
		verifSetField(fr, "p", []byte{byte(sid >> 8), byte(sid), byte(val >> 24), byte(val >> 16), byte(val >> 8), byte(val)})
		return fr, nil
	case 4:
		verifFrameLog = append(verifFrameLog, "PING")
		fr := &http2.PingFrame{}
		if verifBool("ping-ack") {
			fr.FrameHeader.Flags |= http2.FlagPingAck
		}
		verifSetField(fr, "FrameHeader.valid", true)
		return fr, nil
	case 5:
		verifFrameLog = append(verifFrameLog, "GOAWAY")
		fr := &http2.GoAwayFrame{LastStreamID: verifUint32("goaway-last-stream-id"), ErrCode: http2.ErrCode(verifUint32("goaway-code"))}
		verifSetField(fr, "FrameHeader.valid", true)
		if verifBool("goaway-too-many-pings") {
			verifSetField(fr, "debugData", []byte("too_many_pings"))
		}
		return fr, nil
	case 6:
		verifFrameLog = append(verifFrameLog, "WINDOW_UPDATE")
		fr := &http2.WindowUpdateFrame{FrameHeader: http2.FrameHeader{Type: http2.FrameWindowUpdate, StreamID: id}, Increment: verifUint32("window-increment")}
		verifSetField(fr, "FrameHeader.valid", true)
		return fr, nil
	}
	verifFrameLog = append(verifFrameLog, "stream-error")
	return nil, http2.StreamError{StreamID: id, Code: http2.ErrCode(verifUint32("stream-error-code"))}
}

var verifNFrames, verifMaxStreams = 2, 1

//verif:thoroughonly verifH_C11_reader2s
func verifH_C11_reader2s() {
	verifMaxStreams = 2
	verifH_C11_reader()
}

func verifH_C11_reader() {
	verifFramesLeft, verifFrameLog = verifNFrames, nil
	done := make(chan struct{})
	ctx, cancel := context.WithCancel(context.Background())
	conn := &verifConn{}
	closes := 0
	wd := make(chan struct{})
	close(wd) // the loopy writer has already gone
	t := &http2Client{ctx: ctx, cancel: cancel, ctxDone: ctx.Done(), conn: conn, controlBuf: newControlBuffer(done), goAway: make(chan struct{}),
		readerDone: make(chan struct{}), writerDone: wd, activeStreams: map[uint32]*ClientStream{}, nextID: 1,
		fc: &trInFlow{limit: 65535}, initialWindowSize: 65535, maxConcurrentStreams: 100, streamQuota: 100, streamsQuotaAvailable: make(chan struct{}, 1),
		framer: &framer{}, onClose: func(GoAwayInfo) { closes++ }}
	t.channelz = &channelz.Socket{}
	nstreams := verifMaxStreams
	var streams []*ClientStream
	for i := 0; i < nstreams; i++ {
		s := t.newStream(context.Background(), &CallHdr{Method: "/s/m"}, nil)
		s.id = t.nextID
		t.nextID += 2
		s.fc = inFlow{limit: 65535}
		t.activeStreams[s.id] = s
		t.streamQuota--
		streams = append(streams, s)
	}
	errCh := make(chan error, 1)
	t.reader(errCh) // returns when the connection ends; a panic anywhere below is a violation
	// the connection has ended: every RPC has terminated with exactly one status
	for _, s := range streams {
		select {
		case <-s.done:
		default:
			verifAssert(false, "every RPC on the connection terminates once the connection ends")
		}
		verifAssert(s.getState() == streamDone, "terminated streams are in the done state")
		verifAssert(s.status != nil, "every RPC terminates with a status")
		select {
		case <-s.headerChan:
		default:
			verifAssert(false, "nobody is left waiting for headers of a terminated stream")
		}
	}
	select {
	case <-t.readerDone:
	default:
		verifAssert(false, "the reader goroutine's end is signalled")
	}
	verifAssert(conn.closed >= 1, "the connection is closed")
	verifAssert(closes <= 1, "the channel is told about the connection's end at most once")
	t.mu.Lock()
	verifAssert(t.activeStreams == nil && t.state == closing, "the transport is closed")
	t.mu.Unlock()
	verifCover("connection-ended")
}

// grpc-message decoding never panics, whatever the server sends
func verifH_C11_message() {
	msg := verifString("grpc-message", 6)
	out := decodeGrpcMessage(msg)
	verifAssert(len(out) <= len(msg), "decoding never grows the message")
	if len(out) < len(msg) {
		verifCover("unescaped")
	}
}
