//go:build verif

// C12: a misbehaving client cannot reach a handler with an illegal request (http2Server.operateHeaders).
//verif:pkg internal/transport
//verif:bound loop=64 steps=8000000 paths=600000
//verif:outside raw bytes (the HTTP/2 frame parser and hpack decoder are third-party: the decoded header list is the input here); header lists other than the generated ones (method, content-type, 0-2 :authority, 0-1 host, optional grpc-timeout, connection and one -bin header, in a fixed order); tap handles; real handlers
package transport

import (
	"context"

	"golang.org/x/net/http2"
	"golang.org/x/net/http2/hpack"
)

type verifReqShape struct {
	method, ctype      int // method: 0 POST, 1 GET, 2 absent; ctype: 0 application/grpc, 1 application/grpc+proto, 2 text/html, 3 absent
	nAuthority, nHost  int
	timeout            int // 0 absent, 1 "1S", 2 malformed
	connection         bool
	bin                int // 0 absent, 1 valid base64, 2 invalid base64
	endStream          bool
}

func verifNewShape(full bool) verifReqShape {
	sh := verifReqShape{}
	sh.method = verifChoice("method", 3)
	sh.ctype = verifChoice("content-type", 4)
	if full {
		sh.nAuthority = verifChoice("authorities", 3)
		sh.nHost = verifChoice("hosts", 2)
		sh.timeout = verifChoice("timeout", 3)
		sh.connection = verifBool("connection-header")
		sh.bin = verifChoice("bin", 3)
		sh.endStream = verifBool("endStream")
	} else {
		sh.nAuthority = 1
	}
	return sh
}

func (sh verifReqShape) wellFormed() bool {
	return sh.method == 0 && sh.ctype <= 1 && sh.nAuthority <= 1 && sh.nHost <= 1 && sh.timeout != 2 && !sh.connection && sh.bin != 2
}

func (sh verifReqShape) frame(id uint32) *http2.MetaHeadersFrame {
	var f []hpack.HeaderField
	switch sh.method {
	case 0:
		f = append(f, hpack.HeaderField{Name: ":method", Value: "POST"})
	case 1:
		f = append(f, hpack.HeaderField{Name: ":method", Value: "GET"})
	}
	f = append(f, hpack.HeaderField{Name: ":path", Value: "/s/m"})
	for i := 0; i < sh.nAuthority; i++ {
		f = append(f, hpack.HeaderField{Name: ":authority", Value: "a"})
	}
	for i := 0; i < sh.nHost; i++ {
		f = append(f, hpack.HeaderField{Name: "host", Value: "h"})
	}
	switch sh.ctype {
	case 0:
		f = append(f, hpack.HeaderField{Name: "content-type", Value: "application/grpc"})
	case 1:
		f = append(f, hpack.HeaderField{Name: "content-type", Value: "application/grpc+proto"})
	case 2:
		f = append(f, hpack.HeaderField{Name: "content-type", Value: "text/html"})
	}
	switch sh.timeout {
	case 1:
		f = append(f, hpack.HeaderField{Name: "grpc-timeout", Value: "1S"})
	case 2:
		f = append(f, hpack.HeaderField{Name: "grpc-timeout", Value: "1x"})
	}
	if sh.connection {
		f = append(f, hpack.HeaderField{Name: "connection", Value: "close"})
	}
	switch sh.bin {
	case 1:
		f = append(f, hpack.HeaderField{Name: "k-bin", Value: "YQ"})
	case 2:
		f = append(f, hpack.HeaderField{Name: "k-bin", Value: "!"})
	}
	var flags http2.Flags = http2.FlagHeadersEndHeaders
	if sh.endStream {
		flags |= http2.FlagHeadersEndStream
	}
	return &http2.MetaHeadersFrame{HeadersFrame: &http2.HeadersFrame{FrameHeader: http2.FrameHeader{Type: http2.FrameHeaders, StreamID: id, Flags: flags}}, Fields: f}
}

func verifNewServer(maxStreams uint32, active int, isDraining bool) *http2Server {
	done := make(chan struct{})
	t := &http2Server{controlBuf: newControlBuffer(done), done: done, maxStreams: maxStreams, activeStreams: map[uint32]*ServerStream{}, initialWindowSize: 65535}
	for i := 0; i < active; i++ {
		t.activeStreams[uint32(1001+2*i)] = &ServerStream{}
	}
	if isDraining {
		t.state = draining
	}
	return t
}

func verifCountItems(cb *controlBuffer) (refused, protocol, early, registered int) {
	for {
		it, _ := cb.get(false)
		if it == nil {
			return
		}
		switch x := it.(type) {
		case *cleanupStream:
			if x.rst && x.rstCode == http2.ErrCodeRefusedStream {
				refused++
			}
			if x.rst && x.rstCode == http2.ErrCodeProtocol {
				protocol++
			}
		case *earlyAbortStream:
			early++
		case *registerStream:
			registered++
		}
	}
}

// one HEADERS frame with every field symbolic
func verifH_C12_headers() {
	prevMax := verifUint32("previous-max-stream-id")
	id := verifUint32("stream-id")
	maxStreams := uint32(1 + verifChoice("max-streams", 2))
	active := verifChoice("active-streams", 3)
	verifAssume(uint32(active) <= maxStreams)
	isDraining := verifBool("draining")
	t := verifNewServer(maxStreams, active, isDraining)
	t.maxStreamID = prevMax
	sh := verifNewShape(true)
	handled := 0
	var got *ServerStream
	err := t.operateHeaders(context.Background(), sh.frame(id), func(s *ServerStream) { handled++; got = s })
	refused, protocol, early, registered := verifCountItems(t.controlBuf)
	legalID := id%2 == 1 && id > prevMax
	if !legalID {
		verifAssert(err != nil && handled == 0, "an even or non-increasing stream id is a connection error and reaches no handler")
		verifCover("illegal-id")
		return
	}
	verifAssert(err == nil, "a legal stream id is not a connection error")
	verifAssert(t.maxStreamID == id, "the highest stream id seen is remembered")
	verifAssert(uint32(len(t.activeStreams)) <= maxStreams, "the number of concurrent streams never exceeds the advertised limit")
	ok := sh.wellFormed() && !isDraining && uint32(active) < maxStreams
	if ok {
		verifAssert(handled == 1 && registered == 1, "a well-formed request on a legal id within the stream limit reaches the handler exactly once")
		verifAssert(got != nil && got.id == id && got.method == "/s/m" && t.activeStreams[id] == got, "with its id and method")
		verifCover("handled")
		return
	}
	verifAssert(handled == 0 && registered == 0, "a malformed request, a request over the stream limit or on a draining connection never reaches a handler")
	switch {
	case sh.nAuthority > 1 || sh.nHost > 1:
		verifAssert(early == 1, "several :authority / host values: early abort")
	case sh.connection:
		verifAssert(protocol == 1, "connection header: RST_STREAM PROTOCOL_ERROR")
		verifCover("protocol-error")
	case sh.ctype >= 2:
		verifAssert(early == 1, "missing or non-gRPC content-type: early abort")
	case sh.timeout == 2 || sh.bin == 2:
		verifAssert(early == 1, "malformed grpc-timeout or binary metadata: early abort")
		verifCover("malformed-header")
	case isDraining:
		verifAssert(early == 0 && refused == 0, "draining connection: the stream is dropped silently")
	case uint32(active) >= maxStreams:
		verifAssert(refused == 1, "over the stream limit: RST_STREAM REFUSED_STREAM")
		verifCover("refused")
	default:
		verifAssert(sh.method != 0 && early == 1, "method other than POST: early abort")
		verifCover("bad-method")
	}
}

// two HEADERS frames: an id is never accepted again after it (or a higher one) was seen, even if that
// earlier request was rejected for its headers
func verifH_C12_ids() {
	t := verifNewServer(10, 0, false)
	id1, id2 := verifUint32("id1"), verifUint32("id2")
	verifAssume(id1%2 == 1)
	first := verifNewShape(false)
	handled1 := 0
	err1 := t.operateHeaders(context.Background(), first.frame(id1), func(*ServerStream) { handled1++ })
	verifAssert(err1 == nil, "first frame has a legal id")
	handled2 := 0
	second := verifReqShape{nAuthority: 1}
	err2 := t.operateHeaders(context.Background(), second.frame(id2), func(*ServerStream) { handled2++ })
	if id2%2 == 1 && id2 > id1 {
		verifAssert(err2 == nil && handled2 == 1, "a higher odd id is accepted")
		verifCover("accepted")
	} else {
		verifAssert(err2 != nil && handled2 == 0, "an id not above every id already seen is a connection error, whatever happened to the earlier request")
		if !first.wellFormed() {
			verifCover("reuse-after-rejected-request")
		}
		verifCover("rejected")
	}
}
