//go:build verif

// C13: the client never exceeds the server's MAX_CONCURRENT_STREAMS.
//verif:pkg internal/transport
//verif:bound loop=64 steps=8000000 preempt=1 paths=1500000
//verif:entry verifH_C13_quota2 thorough preempt=2 paths=6000000
//verif:stub (*google.golang.org/grpc/internal/transport.http2Client).createHeaderFields => verifStubHeaderFields
//verif:noreplay stubbed (header construction) and schedule-dependent: witnesses are re-executed deterministically in the engine from the recorded decision prefix
//verif:outside more than 3 RPCs, 2 SETTINGS frames and limits above 3; header construction (stubbed) and the loopy writer (the order of HEADERS, stream clean-ups and SETTINGS acks is read from the control buffer, which is the order loopy writes them); stream-id exhaustion; preemption bound 1 with 3 RPCs (both tiers), bound 2 with 2 RPCs (thorough)
package transport

import (
	"context"

	"golang.org/x/net/http2"
	"golang.org/x/net/http2/hpack"
)

func verifStubHeaderFields(t *http2Client, ctx context.Context, callHdr *CallHdr) ([]hpack.HeaderField, error) {
	return nil, nil
}

func verifSettingsFrame(maxStreams uint32) *http2.SettingsFrame {
	f := &http2.SettingsFrame{}
	verifSetField(f, "FrameHeader.valid", true)
	verifSetField(f, "p", []byte{0, byte(http2.SettingMaxConcurrentStreams), byte(maxStreams >> 24), byte(maxStreams >> 16), byte(maxStreams >> 8), byte(maxStreams)})
	return f
}

var verifC13RPCs = 3

// thorough only: two RPCs under preemption bound 2 (three RPCs at bound 2 exceed the path budget)
//
//verif:thoroughonly verifH_C13_quota2
func verifH_C13_quota2() {
	verifC13RPCs = 2
	verifH_C13_quota()
}

func verifH_C13_quota() {
	done := make(chan struct{})
	tctx, tcancel := context.WithCancel(context.Background())
	m0 := uint32(1 + verifChoice("initial-limit", 2))
	t := &http2Client{ctx: tctx, cancel: tcancel, controlBuf: newControlBuffer(done), goAway: make(chan struct{}), activeStreams: map[uint32]*ClientStream{},
		nextID: 1, maxConcurrentStreams: m0, streamQuota: int64(m0), streamsQuotaAvailable: make(chan struct{}, 1), initialWindowSize: 65535}
	nrpc := verifC13RPCs
	cctx, ccancel := context.WithCancel(context.Background())
	admitted, failed, closedByApp := 0, 0, 0
	for i := 0; i < nrpc; i++ {
		go func() {
			verifDaemon()
			s, err := t.NewStream(cctx, &CallHdr{Method: "/s/m"}, nil)
			if err != nil {
				failed++
				return
			}
			admitted++
			verifYield() // the RPC runs for a while
			if verifBool("rpc-ends") {
				t.closeStream(s, nil, false, http2.ErrCodeNo, nil, nil, true)
				closedByApp++
			}
		}()
	}
	limits := []uint32{m0}
	nset := verifChoice("settings-frames", 3)
	for i := 0; i < nset; i++ { // the server changes its limit at arbitrary moments
		verifYield()
		l := uint32(verifChoice("new-limit", 4))
		t.handleSettings(verifSettingsFrame(l), false)
		limits = append(limits, l)
	}
	verifAtQuiescence(func() {
		// the control buffer holds HEADERS, stream clean-ups and SETTINGS acks in the order loopy will write them
		open, li := 0, 0
		limit := limits[0]
		var lastID uint32
		headers := 0
		for {
			it, _ := t.controlBuf.get(false)
			if it == nil {
				break
			}
			switch x := it.(type) {
			case *clientHeaders:
				open++
				headers++
				verifAssert(uint32(open) <= limit, "a stream is opened only while fewer than MAX_CONCURRENT_STREAMS (latest value) are open")
				verifAssert(x.streamID%2 == 1 && x.streamID > lastID, "stream ids are odd and strictly increasing")
				lastID = x.streamID
			case *cleanupStream:
				open--
			case *incomingSettings:
				li++
				limit = limits[li]
			}
		}
		verifAssert(headers == admitted && li == nset, "every admitted RPC queued exactly one HEADERS frame")
		verifAssert(open == admitted-closedByApp && open >= 0, "open-stream accounting")
		waiting := nrpc - admitted - failed
		verifAssert(failed == 0, "no RPC fails while the connection is healthy and its context is live")
		if waiting > 0 {
			verifAssert(uint32(open) >= limit, "a waiting RPC is admitted once quota frees: RPCs wait only while the connection is at its limit")
			verifCover("rpc-waiting-at-limit")
		}
		if admitted == nrpc {
			verifCover("all-admitted")
		}
		if limit < uint32(open) {
			verifCover("limit-lowered-below-open-count")
		}
		// a waiting RPC fails when its context ends
		ccancel()
	})
}

// waiting RPCs are released by cancellation, GOAWAY and connection close
func verifH_C13_release() {
	done := make(chan struct{})
	tctx, tcancel := context.WithCancel(context.Background())
	t := &http2Client{ctx: tctx, cancel: tcancel, controlBuf: newControlBuffer(done), goAway: make(chan struct{}), activeStreams: map[uint32]*ClientStream{},
		nextID: 1, maxConcurrentStreams: 0, streamQuota: 0, streamsQuotaAvailable: make(chan struct{}, 1), initialWindowSize: 65535}
	cctx, ccancel := context.WithCancel(context.Background())
	returned := false
	var err error
	go func() {
		verifDaemon()
		_, err = t.NewStream(cctx, &CallHdr{Method: "/s/m"}, nil)
		returned = true
	}()
	verifYield()
	how := verifChoice("release", 4)
	switch how {
	case 0:
		ccancel()
	case 1:
		close(t.goAway)
	case 2:
		tcancel()
	case 3:
		t.handleSettings(verifSettingsFrame(1), false)
	}
	verifAtQuiescence(func() {
		verifAssert(returned, "a waiting RPC is released by quota, deadline/cancel, GOAWAY or connection close")
		if how == 3 {
			verifAssert(err == nil, "raising the limit admits the waiting RPC")
			verifCover("admitted-after-raise")
		} else {
			_, isNSE := err.(*NewStreamError)
			verifAssert(err != nil && isNSE, "the waiting RPC fails with a NewStreamError")
			verifCover("released-with-error")
		}
		ccancel()
	})
}
