//go:build verif

// C14: GOAWAY handling on the client: streams above the last-stream-id are failed as unprocessed, the others continue.
//verif:pkg internal/transport
//verif:bound loop=64 steps=6000000 paths=600000
//verif:stub (*google.golang.org/grpc/internal/transport.http2Client).closeStream => verifStubGoAwayCloseStream
//verif:noreplay-stubbed
//verif:outside more than three active streams (ids 1, 3, 5) and two GOAWAY frames; the race between NewStream and GOAWAY and the server side's two-phase GOAWAY (not executed by this check); what closeStream does to a stream (recorded only)
package transport

import (
	"golang.org/x/net/http2"
	"google.golang.org/grpc/status"
)

type verifClosedStream struct {
	s   *ClientStream
	err error
	rst bool
}

var verifGoAwayClosed []verifClosedStream

func verifStubGoAwayCloseStream(t *http2Client, s *ClientStream, err error, rst bool, rstCode http2.ErrCode, st *status.Status, mdata map[string][]string, eosReceived bool) {
	verifGoAwayClosed = append(verifGoAwayClosed, verifClosedStream{s, err, rst})
	t.mu.Lock()
	delete(t.activeStreams, s.id) // as the real closeStream does
	t.mu.Unlock()
}

// a frame as the HTTP/2 framer hands it over (its accessors require the framer's "valid" mark)
func verifGoAwayFrame(last uint32) *http2.GoAwayFrame {
	f := &http2.GoAwayFrame{LastStreamID: last, ErrCode: http2.ErrCodeNo}
	verifSetField(f, "FrameHeader.valid", true)
	return f
}

func verifH_C14_goaway() {
	verifGoAwayClosed = nil
	done := make(chan struct{})
	closes := 0
	t := &http2Client{controlBuf: newControlBuffer(done), goAway: make(chan struct{}), activeStreams: map[uint32]*ClientStream{},
		onClose: func(GoAwayInfo) { closes++ }}
	ids := [...]uint32{1, 3, 5}
	streams := map[uint32]*ClientStream{}
	for _, id := range ids {
		s := &ClientStream{done: make(chan struct{}), headerChan: make(chan struct{})}
		s.id = id
		t.activeStreams[id] = s
		streams[id] = s
	}
	closedCount := func(id uint32) int {
		n := 0
		for _, c := range verifGoAwayClosed {
			if c.s == streams[id] {
				verifAssert(c.err == errStreamDrain && !c.rst, "streams the server will not process fail with the drain error, without RST_STREAM")
				n++
			}
		}
		return n
	}
	id1 := verifUint32("last-stream-id-1")
	err1 := t.handleGoAway(verifGoAwayFrame(id1))
	if id1 > 0 && id1%2 == 0 {
		verifAssert(err1 != nil && len(verifGoAwayClosed) == 0, "an even last-stream-id is a connection error")
		verifCover("even-id")
		return
	}
	verifAssert(err1 == nil, "first GOAWAY accepted")
	verifAssert(t.state == draining && closes == 1, "the transport starts draining and tells the channel once")
	select {
	case <-t.goAway:
	default:
		verifAssert(false, "GoAway is signalled")
	}
	for _, id := range ids {
		if id > id1 {
			verifAssert(closedCount(id) == 1 && streams[id].unprocessed.Load(), "a stream above the last-stream-id is failed exactly once and marked unprocessed (safe to retry)")
		} else {
			verifAssert(closedCount(id) == 0 && !streams[id].unprocessed.Load(), "a stream at or below the last-stream-id continues untouched")
		}
	}
	if !verifBool("second-goaway") {
		verifCover("one-goaway")
		return
	}
	before := len(verifGoAwayClosed)
	id2 := verifUint32("last-stream-id-2")
	err2 := t.handleGoAway(verifGoAwayFrame(id2))
	switch {
	case id1 == 0:
		verifAssert(err2 != nil && len(verifGoAwayClosed) == before, "no stream is left after GOAWAY(0): a further GOAWAY closes the connection")
	case id2 > 0 && id2%2 == 0:
		verifAssert(err2 != nil && len(verifGoAwayClosed) == before, "an even last-stream-id is a connection error")
	case id2 > id1:
		verifAssert(err2 != nil && len(verifGoAwayClosed) == before, "a later GOAWAY may not raise the last-stream-id")
		verifCover("raised-id")
	default:
		verifAssert(err2 == nil && closes == 1, "second GOAWAY accepted; the channel is not told twice")
		for _, id := range ids {
			switch {
			case id > id1:
				verifAssert(closedCount(id) == 1, "already failed by the first GOAWAY, not failed again")
			case id > id2:
				verifAssert(closedCount(id) == 1 && streams[id].unprocessed.Load(), "a stream above the new, lower last-stream-id is failed exactly once and marked unprocessed")
			default:
				verifAssert(closedCount(id) == 0 && !streams[id].unprocessed.Load(), "a stream at or below the final last-stream-id continues untouched")
			}
		}
		if id2 < id1 {
			verifCover("lowered-id")
		}
		verifCover("two-goaways")
	}
}
