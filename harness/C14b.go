//go:build verif

// C14 (server half): a server draining gracefully announces, then sends a final GOAWAY with the highest accepted stream id.
//
//verif:pkg internal/transport
//verif:bound loop=64 steps=8000000 preempt=0 paths=600000
//verif:stub (*golang.org/x/net/http2.Framer).WriteGoAway => verifStubWriteGoAway
//verif:stub (*golang.org/x/net/http2.Framer).WritePing => verifStubWritePing
//verif:stub (*google.golang.org/grpc/internal/transport.bufWriter).Flush => verifStubFlush
//verif:noop (*google.golang.org/grpc/internal/grpclog.PrefixLogger).V
//verif:noop (*google.golang.org/grpc/internal/grpclog.PrefixLogger).Infof
//verif:noop (*google.golang.org/grpc/internal/grpclog.PrefixLogger).Warningf
//verif:noreplay stubbed framer and virtual clock: witnesses are re-executed deterministically in the engine
//verif:outside the loopy writer (the harness takes GOAWAY items off the control buffer and hands them to the real outgoingGoAwayHandler, as loopy does); frame bytes (WriteGoAway / WritePing are recorded); requests are well-formed POSTs on stream ids 1, 3, 5, 7 arriving before the drain, between the two GOAWAYs, and after the final one, every order the path chooses; whether the client acknowledges the ping or the 5 s fallback fires
package transport

import (
	"context"
	"math"

	"golang.org/x/net/http2"
	"golang.org/x/net/http2/hpack"
)

type verifGoAwayWrite struct {
	last uint32
	code http2.ErrCode
}

var verifGoAwayWrites []verifGoAwayWrite
var verifDrainPings int

func verifStubWriteGoAway(f *http2.Framer, maxStreamID uint32, code http2.ErrCode, debugData []byte) error {
	verifGoAwayWrites = append(verifGoAwayWrites, verifGoAwayWrite{maxStreamID, code})
	return nil
}
func verifStubWritePing(f *http2.Framer, ack bool, data [8]byte) error {
	if !ack && data == goAwayPing.data {
		verifDrainPings++
	}
	return nil
}
func verifStubFlush(w *bufWriter) error { return nil }

func verifDrainRequest(id uint32) *http2.MetaHeadersFrame {
	f := []hpack.HeaderField{{Name: ":method", Value: "POST"}, {Name: ":path", Value: "/s/m"}, {Name: ":authority", Value: "a"},
		{Name: "content-type", Value: "application/grpc"}}
	return &http2.MetaHeadersFrame{HeadersFrame: &http2.HeadersFrame{FrameHeader: http2.FrameHeader{Type: http2.FrameHeaders, StreamID: id,
		Flags: http2.FlagHeadersEndHeaders}}, Fields: f}
}

func verifH_C14_serverdrain() {
	verifGoAwayWrites, verifDrainPings = nil, 0
	done := make(chan struct{})
	t := &http2Server{controlBuf: newControlBuffer(done), done: done, maxStreams: 100, activeStreams: map[uint32]*ServerStream{}, initialWindowSize: 65535,
		framer: &framer{fr: &http2.Framer{}, writer: &bufWriter{}}, fc: &trInFlow{limit: 65535}}
	var handled []uint32
	nextID := uint32(1)
	request := func() (accepted bool) {
		id := nextID
		nextID += 2
		before := len(handled)
		err := t.operateHeaders(context.Background(), verifDrainRequest(id), func(s *ServerStream) { handled = append(handled, s.id) })
		verifAssert(err == nil, "a well-formed request never breaks the connection")
		return len(handled) > before
	}
	// take the next GOAWAY item off the control buffer and run the real handler, as loopy does
	runGoAway := func() (found bool, drainLoopy bool, err error) {
		for {
			it, _ := t.controlBuf.get(false)
			if it == nil {
				return false, false, nil
			}
			if g, ok := it.(*goAway); ok {
				d, e := t.outgoingGoAwayHandler(g)
				return true, d, e
			}
		}
	}
	highest := uint32(0)
	for i, n := 0, verifChoice("requests-before-the-drain", 3); i < n; i++ {
		verifAssert(request(), "requests are accepted before the drain")
		highest = nextID - 2
	}
	t.Drain("going away")
	t.Drain("again") // idempotent
	found, _, err := runGoAway()
	verifAssert(found && err == nil, "the drain queues a GOAWAY")
	verifAssert(len(verifGoAwayWrites) == 1 && verifGoAwayWrites[0].last == math.MaxUint32 && verifGoAwayWrites[0].code == http2.ErrCodeNo && verifDrainPings == 1,
		"the first GOAWAY announces the drain without limiting stream ids (last-stream-id 2^31-1 semantics) and is followed by a PING")
	for i, n := 0, verifChoice("requests-between-the-two-GOAWAYs", 3); i < n; i++ {
		verifAssert(request(), "requests that raced the announcement are still accepted")
		highest = nextID - 2
	}
	if verifBool("client-acknowledges-the-ping") {
		pf := &http2.PingFrame{Data: goAwayPing.data}
		pf.FrameHeader.Flags |= http2.FlagPingAck
		verifSetField(pf, "FrameHeader.valid", true)
		t.handlePing(pf)
		verifCover("ping-acked")
	} else {
		verifCover("ping-timeout")
	}
	verifAtQuiescence(func() { // the ack (or the 5 s fallback) made the server queue the final GOAWAY
		activeBefore := len(t.activeStreams)
		found, drainLoopy, err := runGoAway()
		verifAssert(found, "after the ping is acknowledged, or after 5 s, the final GOAWAY is queued")
		verifAssert(len(verifGoAwayWrites) == 2, "exactly one final GOAWAY is written")
		verifAssert(verifGoAwayWrites[1].last == highest, "the final GOAWAY carries the highest stream id the server accepted")
		if activeBefore == 0 {
			verifAssert(err != nil, "with nothing left to serve the connection is closed after the final GOAWAY")
		} else {
			verifAssert(err == nil && drainLoopy, "with streams in flight the writer switches to draining and keeps serving them")
		}
		for _, id := range handled {
			_, still := t.activeStreams[id]
			verifAssert(still, "every stream up to the announced id is left to run to completion")
		}
		n := len(handled)
		for i := 0; i < 2; i++ {
			verifAssert(!request(), "no stream above the final GOAWAY id is accepted")
		}
		verifAssert(len(handled) == n && len(t.activeStreams) == activeBefore, "late requests reach no handler")
		if highest > 0 {
			verifCover("streams-in-flight")
		}
		verifCover("drained")
	})
}
