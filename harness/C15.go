//go:build verif

// C15: keepalive enforcement on the server: GOAWAY ENHANCE_YOUR_CALM exactly after a third too-early ping.
//verif:pkg internal/transport
//verif:bound loop=64 steps=8000000 paths=600000
//verif:outside the keepalive() timer loops of client and server (closing idle connections after Time + Timeout) are NOT executed by this check: only the ping-strike policy is decided; ping sequences other than 4 pings
package transport

import (
	"sync/atomic"
	"time"

	"golang.org/x/net/http2"
	"google.golang.org/grpc/keepalive"
)

func verifH_C15_strikes() {
	done := make(chan struct{})
	minTime := time.Duration(verifInt64("MinTime"))
	verifAssume(minTime >= 0 && minTime <= time.Hour)
	permit := verifBool("PermitWithoutStream")
	t := &http2Server{controlBuf: newControlBuffer(done), done: done, activeStreams: map[uint32]*ServerStream{},
		kep: keepalive.EnforcementPolicy{MinTime: minTime, PermitWithoutStream: permit}}
	consecutive := 0 // too-early pings since the server last sent headers or data (ghost)
	expectGoAway := false
	allConform := true
	npings := 4 // the shortest sequence that can reach three strikes (the first ping is never early)
	for i := 0; i < npings; i++ {
		gap := verifInt64("gap")
		verifAssume(gap >= 0 && gap <= int64(3*time.Hour))
		verifAdvance(gap)
		hasStream := verifBool("has-stream")
		if hasStream {
			t.activeStreams[1] = &ServerStream{}
		} else {
			delete(t.activeStreams, 1)
		}
		sent := verifBool("server-sent-data-since-last-ping")
		if sent {
			atomic.StoreUint32(&t.resetPingStrikes, 1) // what the constructor's setResetPingStrikes closure does when headers or data go out
		}
		required := int64(defaultPingTimeout)
		if hasStream || permit {
			required = int64(minTime)
		}
		early := i > 0 && gap < required
		if early {
			allConform = false
		}
		if sent {
			consecutive = 0
		} else if early {
			consecutive++
		}
		if consecutive > 2 {
			expectGoAway = true
		}
		t.handlePing(&http2.PingFrame{})
	}
	acks, goaways := 0, 0
	for {
		it, _ := t.controlBuf.get(false)
		if it == nil {
			break
		}
		switch x := it.(type) {
		case *ping:
			if x.ack {
				acks++
			}
		case *goAway:
			if x.code == http2.ErrCodeEnhanceYourCalm && string(x.debugData) == "too_many_pings" {
				goaways++
			}
		}
	}
	verifAssert(acks == npings, "every ping is acknowledged")
	if allConform {
		verifAssert(goaways == 0, "a client whose pings respect MinTime (or two hours without streams) is never sent GOAWAY ENHANCE_YOUR_CALM")
		verifCover("conforming")
	}
	if expectGoAway {
		verifAssert(goaways >= 1, "a third too-early ping not separated by server-sent headers or data draws GOAWAY ENHANCE_YOUR_CALM")
		verifCover("too-many-pings")
	} else {
		verifAssert(goaways == 0, "fewer than three consecutive too-early pings draw no GOAWAY")
	}
}
