//go:build verif

// C15 (timer loops): keepalive closes a silent connection no later than Time + Timeout after the last byte, and never a live one.
//
//verif:pkg internal/transport
//verif:bound loop=64 steps=8000000 preempt=0 paths=600000
//verif:stub (*google.golang.org/grpc/internal/transport.http2Server).Close => verifStubKAServerClose
//verif:stub (*google.golang.org/grpc/internal/transport.http2Client).Close => verifStubKAClientClose
//verif:noop (*google.golang.org/grpc/internal/grpclog.PrefixLogger).V
//verif:noop (*google.golang.org/grpc/internal/grpclog.PrefixLogger).Infof
//verif:noreplay virtual clock: witnesses are re-executed deterministically in the engine
//verif:outside what Close does to the connection (stubbed: the close time is recorded and the transport's done signal raised); the peer is a goroutine that records a received byte (lastRead) at up to 2 moments; Time in {1 s, 3 s}, Timeout in {1 s, 5 s}, gaps in {0.5 s, 2 s, 4 s, 7 s} (concrete menus, every combination); max connection idle / age are set out of reach (1000 h); the ping frames themselves (queued in the control buffer, not written)
package transport

import (
	"context"
	"sync"
	"sync/atomic"
	"time"

	"google.golang.org/grpc/keepalive"
)

var verifKACloseTimes []int64

func verifStubKAServerClose(t *http2Server, err error) {
	verifKACloseTimes = append(verifKACloseTimes, verifNow())
	t.mu.Lock()
	if t.state != closing {
		t.state = closing
		close(t.done)
	}
	t.mu.Unlock()
}

func verifStubKAClientClose(t *http2Client, err error) {
	verifKACloseTimes = append(verifKACloseTimes, verifNow())
	t.mu.Lock()
	t.state = closing
	t.mu.Unlock()
	t.cancel()
}

// durations come from small menus (symbolic durations make every timer comparison a solver query; the timer loops are
// decided on these values, the arithmetic on arbitrary values is not claimed)
var verifKATimes = [...]time.Duration{time.Second, 3 * time.Second}
var verifKATimeouts = [...]time.Duration{time.Second, 5 * time.Second} // at most Time, and longer than Time
var verifKAGaps = [...]time.Duration{500 * time.Millisecond, 2 * time.Second, 4 * time.Second, 7 * time.Second}

func verifDur(name string, lo, hi time.Duration) time.Duration {
	switch name {
	case "Time":
		return verifKATimes[verifChoice(name, len(verifKATimes))]
	case "Timeout":
		return verifKATimeouts[verifChoice(name, len(verifKATimeouts))]
	}
	return verifKAGaps[verifChoice(name, len(verifKAGaps))]
}

// the peer: bytes arrive at up to two moments, then silence
func verifPeer(lastRead *int64, reads int, lastAt *int64) {
	for i := 0; i < reads; i++ {
		gap := verifDur("gap-before-received-byte", 0, 15*time.Second)
		<-time.After(gap)
		if len(verifKACloseTimes) > 0 {
			return // the connection is gone: nothing is received any more
		}
		now := time.Now().UnixNano()
		atomic.StoreInt64(lastRead, now)
		*lastAt = verifNow()
	}
}

func verifH_C15_server_loop() {
	verifKACloseTimes = nil
	T, TO := verifDur("Time", time.Millisecond, 10*time.Second), verifDur("Timeout", time.Millisecond, 10*time.Second)
	const far = 1000 * time.Hour
	done := make(chan struct{})
	t := &http2Server{done: done, controlBuf: newControlBuffer(done), kp: keepalive.ServerParameters{Time: T, Timeout: TO, MaxConnectionIdle: far, MaxConnectionAge: far, MaxConnectionAgeGrace: far}}
	start := verifNow()
	atomic.StoreInt64(&t.lastRead, time.Now().UnixNano())
	lastAt := start
	reads := verifChoice("received-bytes", 3)
	go t.keepalive()
	go verifPeer(&t.lastRead, reads, &lastAt)
	go func() { // horizon: a keepalive loop that never gives up is cut after a minute (and then fails the bound below)
		verifDaemon()
		<-time.After(time.Minute)
		if len(verifKACloseTimes) == 0 {
			verifStubKAServerClose(t, nil)
		}
	}()
	verifAtQuiescence(func() {
		verifAssert(len(verifKACloseTimes) == 1, "a connection that goes silent is closed by keepalive, once")
		c := verifKACloseTimes[0]
		verifAssert(c <= lastAt+int64(T)+int64(TO), "the connection is closed no later than Timeout after (last received byte + Time)")
		verifAssert(c >= lastAt+int64(T), "a connection is not closed while it has received a byte within the last Time")
		pings := 0
		for {
			it, _ := t.controlBuf.get(false)
			if it == nil {
				break
			}
			if _, ok := it.(*ping); ok {
				pings++
			}
		}
		verifAssert(pings >= 1, "a keepalive ping was sent before giving up")
		if reads == 2 {
			verifCover("two-bytes")
		}
		verifCover("closed")
	})
}

func verifH_C15_client_loop() {
	verifKACloseTimes = nil
	T, TO := verifDur("Time", time.Millisecond, 10*time.Second), verifDur("Timeout", time.Millisecond, 10*time.Second)
	permit := verifBool("PermitWithoutStream")
	ctx, cancel := context.WithCancel(context.Background())
	done := make(chan struct{})
	t := &http2Client{ctx: ctx, cancel: cancel, ctxDone: ctx.Done(), keepaliveDone: make(chan struct{}), controlBuf: newControlBuffer(done), activeStreams: map[uint32]*ClientStream{},
		kp: keepalive.ClientParameters{Time: T, Timeout: TO, PermitWithoutStream: permit}, keepaliveEnabled: true}
	t.kpDormancyCond = sync.NewCond(&t.mu)
	start := verifNow()
	atomic.StoreInt64(&t.lastRead, time.Now().UnixNano())
	lastAt := start
	applicableAt := start // the moment keepalive became applicable
	streamAtStart := verifBool("a-stream-is-open-from-the-start")
	if streamAtStart {
		t.activeStreams[1] = &ClientStream{}
	}
	opensLater := !streamAtStart && !permit
	go t.keepalive()
	reads := verifChoice("received-bytes", 2)
	go verifPeer(&t.lastRead, reads, &lastAt)
	if opensLater {
		go func() { // a stream is opened at some moment, as NewStream's initStream does
			s := verifDur("stream-opened-after", 0, 25*time.Second)
			<-time.After(s)
			t.mu.Lock()
			t.activeStreams[1] = &ClientStream{}
			applicableAt = verifNow()
			if t.kpDormant {
				t.kpDormancyCond.Signal()
			}
			t.mu.Unlock()
		}()
	}
	go func() { // horizon, as on the server side
		verifDaemon()
		<-time.After(time.Minute)
		if len(verifKACloseTimes) == 0 {
			verifStubKAClientClose(t, nil)
		}
	}()
	verifAtQuiescence(func() {
		verifAssert(len(verifKACloseTimes) == 1, "a connection that goes silent while keepalive applies is closed, once")
		c := verifKACloseTimes[0]
		base := lastAt + int64(T)
		if applicableAt > base {
			base = applicableAt
		}
		// known finding F16: a byte received while keepalive was dormant is noticed only one tick after the wake-up ping and
		// restarts the ping cycle, so the close comes up to min(Time, Timeout) later than the bound
		verifAssertKF(c <= base+int64(TO), "closed no later than Timeout after the later of (last received byte + Time) and the moment keepalive became applicable",
			"F16-keepalive-dormant-read-delays-close", opensLater && lastAt > start && lastAt <= applicableAt && c <= base+2*int64(TO))
		verifAssert(c >= lastAt+int64(T), "not closed while a byte was received within the last Time")
		verifAssert(c >= applicableAt, "not closed by keepalive before keepalive applies (no stream and PermitWithoutStream unset)")
		if opensLater {
			verifCover("dormant-then-applicable")
		}
		verifCover("closed")
	})
}
