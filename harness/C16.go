//go:build verif

// C16: control-frame throttling never blocks the reader without cause; close releases everything.
//verif:pkg internal/transport
//verif:bound loop=40 steps=4000000 preempt=2 paths=1500000
//verif:noreplay schedule-dependent: witnesses are re-executed deterministically in the engine from the recorded decision prefix
//verif:outside throttle limits other than 1 and 2; more than 3 throttled and 1 unthrottled producers' items, one consumer taking up to 3 items, one reader, one close
package transport

import "sync"

func verifH_C16_throttle() {
	saved := maxQueuedControlBufferItems
	limit := 1 + verifChoice("limit", 2)
	maxQueuedControlBufferItems = limit
	done := make(chan struct{})
	cb := newControlBuffer(done)
	queued := 0 // throttled items currently in the queue (ghost, maintained under ghostMu)
	var ghostMu sync.Mutex
	orphaned := 0
	hdrAccepted, hdrConsumed := false, false
	var wg sync.WaitGroup
	closing := verifBool("close")
	rejecting := verifBool("rejected-item")
	putThrottled := func() {
		ok, err := cb.executeAndPut(nil, &ping{})
		if err == nil && ok {
			ghostMu.Lock()
			queued++
			ghostMu.Unlock()
		} else {
			verifAssert(closing, "items are refused only after close")
		}
	}
	wg.Add(2)
	go func() { // peer-triggered control frames
		defer wg.Done()
		putThrottled()
		putThrottled()
		if rejecting {
			// a throttled item whose precondition fails is not queued and must not be counted
			ok, _ := cb.executeAndPut(func() bool { return false }, &earlyAbortStream{})
			verifAssert(!ok, "rejected item not queued")
		}
		putThrottled()
	}()
	go func() { // application data and a stream-creation request are not throttled
		defer wg.Done()
		cb.put(&dataFrame{})
		if cb.put(&clientHeaders{onOrphaned: func(error) { orphaned++ }}) == nil {
			hdrAccepted = true
		}
	}()
	wg.Add(1)
	go func() { // the writer drains some items
		defer wg.Done()
		for i := 0; i < 3; i++ {
			it, err := cb.get(false)
			if err != nil {
				verifAssert(closing, "get fails only after close")
				return
			}
			if _, ok := it.(*clientHeaders); ok {
				hdrConsumed = true
			}
			if c, ok := it.(cbItem); ok && c.isThrottled() {
				ghostMu.Lock()
				queued--
				ghostMu.Unlock()
			}
		}
	}()
	readerPassed := false
	go func() { // the connection reader
		verifDaemon()
		cb.throttle()
		readerPassed = true
	}()
	if closing {
		wg.Add(1)
		go func() { defer wg.Done(); cb.finish() }()
	}
	wg.Wait()
	verifAtQuiescence(func() {
		if closing {
			verifAssert(readerPassed, "close releases a throttled reader")
			verifAssert(cb.put(&ping{}) == ErrConnClosing, "after close no item is accepted")
			want := 0
			if hdrAccepted && !hdrConsumed {
				want = 1
			}
			verifAssert(orphaned == want, "a stream-creation request still queued at close is failed exactly once")
			_, err := cb.get(false)
			verifAssert(err != nil, "get after close fails")
			verifCover("closed")
		} else {
			verifAssert(cb.transportResponseFrames == queued, "the throttle count equals the number of queued peer-triggered control frames")
			verifAssert((cb.trfChan.Load() != nil) == (queued >= limit), "the reader is throttled exactly while at least the limit of such frames is queued")
			if !readerPassed {
				verifAssert(queued >= limit, "the reader stays blocked only while the queue is at or above the limit")
				verifCover("reader-throttled")
			} else {
				verifCover("reader-released")
			}
		}
		maxQueuedControlBufferItems = saved
	})
}
