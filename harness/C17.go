//go:build verif

// C17: a writer blocked on write quota is always woken when quota becomes available (writeQuota).
//verif:pkg internal/transport
//verif:bound loop=40 steps=4000000 preempt=3 paths=600000
//verif:noreplay schedule-dependent: witnesses are re-executed deterministically in the engine from the recorded decision prefix
//verif:outside more than one writer per stream (concurrent SendMsg on one stream is forbidden by the API; with two writers sharing one quota a single wake-up token is not enough, which a first version of this harness reported: a harness error, corrected) with 3 writes and 2 replenish calls; the stream-quota wait inside NewStream (covered by the C13 check where claimed)
package transport

import "sync"

func verifH_C17_writequota() {
	done := make(chan struct{})
	w := &writeQuota{}
	const initial = 10
	w.init(initial, done)
	first := [...]int32{10, 12, 4}[verifChoice("first", 3)] // exactly the quota, more than it, less than it
	second := int32(1 + verifChoice("second", 2))
	r1 := 1 + verifChoice("replenish1", 3)
	r2 := 1 + verifChoice("replenish2", 3)
	ends := verifBool("stream-ends")
	var got int32
	var mu sync.Mutex
	finished := 0
	var wg sync.WaitGroup
	writer := func(sizes ...int32) {
		defer wg.Done()
		for _, sz := range sizes {
			if err := w.get(sz); err != nil {
				verifAssert(ends, "a writer is failed only when the stream ended")
				break
			}
			mu.Lock()
			got += sz
			mu.Unlock()
		}
		mu.Lock()
		finished++
		mu.Unlock()
	}
	wg.Add(1)
	go func() { verifDaemon(); writer(first, second, 3) }() // one sender per stream (SendMsg must not be called concurrently)
	wg.Add(1)
	go func() { // the loopy writer gives quota back as data goes out
		defer wg.Done()
		w.replenish(r1)
		w.replenish(r2)
		if ends {
			close(done)
		}
	}()
	verifAtQuiescence(func() {
		q := w.quota
		verifAssert(int64(q) == int64(initial)-int64(got)+int64(r1)+int64(r2), "quota ledger exact: initial - acquired + replenished")
		if finished < 1 {
			verifAssert(!ends, "the end of the stream releases every blocked writer")
			verifAssert(q <= 0, "no writer stays blocked while quota is available (no lost wake-up)")
			verifCover("writer-still-blocked-for-lack-of-quota")
		} else {
			verifCover("all-writers-finished")
		}
	})
}
