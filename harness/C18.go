//go:build verif

// C18: retries are bounded and policy-driven (csAttempt.shouldRetry decision table).
//verif:pkg .
//verif:bound loop=40 steps=6000000 paths=600000
//verif:stub math/rand/v2.Float64 => verifStubRand
//verif:noreplay-stubbed
//verif:noop google.golang.org/grpc/internal/channelz.Infof
//verif:noop google.golang.org/grpc/internal/channelz.Warningf
//verif:outside the replay of buffered operations on the new attempt (withRetry / replayBufferLocked) and the transport's transmission; pushback header values other than {absent, "0", "25", "-1", "x", two values}; the numeric value of the computed backoff (C19)
package grpc

import (
	"context"
	"errors"
	"time"

	"google.golang.org/grpc/codes"
	iserviceconfig "google.golang.org/grpc/internal/serviceconfig"
	"google.golang.org/grpc/internal/transport"
	"google.golang.org/grpc/metadata"
	"google.golang.org/grpc/status"
)

func verifStubRand() float64 { return 0.5 } // the jitter value is irrelevant to the decision table (C19 covers it)

func verifH_C18_shouldretry() {
	cs := &clientStream{cc: &ClientConn{}, ctx: context.Background(), methodConfig: &MethodConfig{}}
	cs.finished, cs.committed = verifBool("finished"), verifBool("committed")
	cs.firstAttempt = verifBool("firstAttempt")
	cs.cc.dopts.disableRetry = verifBool("disableRetry")
	cs.numRetries = [...]int{0, 1, 3}[verifChoice("numRetries", 3)]
	cs.numRetriesSincePushback = verifChoice("numRetriesSincePushback", 2)
	verifAssume(cs.numRetriesSincePushback <= cs.numRetries)
	hasPolicy := verifBool("hasPolicy")
	maxAttempts := 2 + verifChoice("maxAttempts", 3)
	retryableUnavailable := verifBool("policy-lists-UNAVAILABLE")
	if hasPolicy {
		cs.methodConfig.RetryPolicy = &iserviceconfig.RetryPolicy{MaxAttempts: maxAttempts, InitialBackoff: time.Millisecond, MaxBackoff: time.Second,
			BackoffMultiplier: 2, RetryableStatusCodes: map[codes.Code]bool{codes.Aborted: true}}
		if retryableUnavailable {
			cs.methodConfig.RetryPolicy.RetryableStatusCodes[codes.Unavailable] = true
		}
	}
	throttled := false
	if verifBool("hasThrottler") {
		tokens := float64(verifChoice("tokens", 2))*2 + 5.5 // 5.5 (throttled after the decrement) or 7.5, threshold 5
		cs.retryThrottler = &retryThrottler{max: 10, thresh: 5, ratio: 0.1, tokens: tokens}
		throttled = tokens-1 <= 5
	}
	a := &csAttempt{cs: cs, drop: verifBool("drop"), allowTransparentRetry: verifBool("allowTransparentRetry")}
	code := [...]codes.Code{codes.Unavailable, codes.Aborted, codes.Internal}[verifChoice("code", 3)]
	inErr := status.Error(code, "failed")
	hasStream := verifBool("hasStream")
	unprocessed, trailersOnly := false, false
	pb := 0 // 0 absent, 1 "0", 2 "25", 3 "-1", 4 "x", 5 two values
	if hasStream {
		ts := &transport.ClientStream{}
		done, hc := make(chan struct{}), make(chan struct{})
		close(done)
		close(hc)
		verifSetField(ts, "done", done)
		verifSetField(ts, "headerChan", hc)
		verifSetField(ts, "Stream.ctx", context.Background())
		unprocessed, trailersOnly = verifBool("unprocessed"), verifBool("trailersOnly")
		if unprocessed {
			verifSetField(ts, "unprocessed.v", uint32(1))
		}
		verifSetField(ts, "noHeaders", trailersOnly)
		verifSetField(ts, "status", status.New(code, "failed"))
		pb = verifChoice("pushback", 6)
		tr := metadata.MD{}
		switch pb {
		case 1:
			tr["grpc-retry-pushback-ms"] = []string{"0"}
		case 2:
			tr["grpc-retry-pushback-ms"] = []string{"25"}
		case 3:
			tr["grpc-retry-pushback-ms"] = []string{"-1"}
		case 4:
			tr["grpc-retry-pushback-ms"] = []string{"x"}
		case 5:
			tr["grpc-retry-pushback-ms"] = []string{"1", "2"}
		}
		verifSetField(ts, "Stream.trailer", tr)
		a.transportStream = ts
		inErr = errors.New("stream error")
	}
	retriesBefore := cs.numRetries
	t0 := verifNow()
	transparent, err := a.shouldRetry(inErr)
	waited := verifNow() - t0

	// the statement as a decision procedure
	retryable := hasPolicy && (code == codes.Aborted || (code == codes.Unavailable && retryableUnavailable))
	switch {
	case cs.finished || cs.committed || a.drop:
		verifAssert(!transparent && err == inErr, "no retry after the RPC finished, was committed, or was dropped by the LB policy")
		verifCover("committed-or-finished")
	case !hasStream && a.allowTransparentRetry:
		verifAssert(transparent && err == nil, "transparent retry when no stream was created and the transport allows it")
		verifCover("transparent")
	case cs.firstAttempt && unprocessed:
		verifAssert(transparent && err == nil, "transparent retry of a first attempt the server never processed")
		verifCover("transparent-unprocessed")
	case cs.cc.dopts.disableRetry:
		verifAssert(!transparent && err == inErr, "no configured retry when retries are disabled")
	case hasStream && !trailersOnly:
		verifAssert(!transparent && err == inErr, "no retry once response headers were received")
	case hasStream && pb >= 3:
		verifAssert(!transparent && err == inErr, "negative, malformed or repeated pushback forbids the retry")
		verifCover("pushback-abort")
	case !retryable:
		verifAssert(!transparent && err == inErr, "no retry for a status code the policy does not list")
	case throttled:
		verifAssert(!transparent && err == inErr, "no retry while the channel is throttled")
		verifCover("throttled")
	case retriesBefore+1 >= maxAttempts:
		verifAssert(!transparent && err != nil && err != inErr && errors.Is(err, inErr), "attempts never exceed MaxAttempts")
		verifCover("max-attempts")
	default:
		verifAssert(!transparent && err == nil, "otherwise the policy retries")
		verifAssert(cs.numRetries == retriesBefore+1 && cs.numRetries+1 <= maxAttempts, "the attempt count grows by one and stays within MaxAttempts")
		if pb == 1 || pb == 2 {
			want := int64(0)
			if pb == 2 {
				want = int64(25 * time.Millisecond)
			}
			verifAssert(waited == want, "server pushback is honoured exactly")
			verifAssert(cs.numRetriesSincePushback == 0, "pushback resets the backoff exponent")
			verifCover("pushback")
		} else {
			verifAssert(waited >= 0, "backoff wait is not negative")
			verifCover("backoff")
		}
	}
}
