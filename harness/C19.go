//go:build verif

// C19: retry backoff jitter bounds and retry-throttling token arithmetic.
//verif:pkg .
//verif:bound loop=40 steps=6000000 paths=600000
//verif:lazyfp
//verif:noop google.golang.org/grpc/internal/channelz.Infof
//verif:noop google.golang.org/grpc/internal/channelz.Warningf
//verif:outside retry policies other than the three listed (the policy values are concrete so that multiplier^k is a constant; the jitter draw is symbolic over its whole range [0,1)); throttler parameters outside max in (0,1000], ratio in (0,1000] (what the service-config parser admits)
package grpc

import (
	"context"
	"time"

	"google.golang.org/grpc/codes"
	iserviceconfig "google.golang.org/grpc/internal/serviceconfig"
	"google.golang.org/grpc/internal/transport"
	"google.golang.org/grpc/metadata"
	"google.golang.org/grpc/status"
)

type verifPolicy struct {
	initial, max time.Duration
	mult         float64
}

var verifPolicies = [...]verifPolicy{
	{time.Millisecond, time.Second, 2},
	{100 * time.Millisecond, 150 * time.Millisecond, 1.6},
	{time.Second, time.Hour, 10},
}

// the wait before a configured retry lies within [0.8, 1.2] x min(initial x multiplier^k, max)
func verifH_C19_backoff() {
	p := verifPolicies[verifChoice("policy", len(verifPolicies))]
	k := verifChoice("retries-since-pushback", 4)
	cs := &clientStream{cc: &ClientConn{}, ctx: context.Background(), methodConfig: &MethodConfig{}}
	cs.numRetries, cs.numRetriesSincePushback = k, k
	cs.methodConfig.RetryPolicy = &iserviceconfig.RetryPolicy{MaxAttempts: 10, InitialBackoff: p.initial, MaxBackoff: p.max,
		BackoffMultiplier: p.mult, RetryableStatusCodes: map[codes.Code]bool{codes.Unavailable: true}}
	a := &csAttempt{cs: cs}
	t0 := verifNow()
	transparent, err := a.shouldRetry(status.Error(codes.Unavailable, "x"))
	waited := verifNow() - t0
	verifAssert(!transparent && err == nil, "the policy retries")
	base := float64(p.initial)
	for i := 0; i < k; i++ {
		base *= p.mult
	}
	if base > float64(p.max) {
		base = float64(p.max)
	}
	lo, hi := int64(base*0.8), int64(base*1.2)
	verifAssert(waited >= lo-1 && waited <= hi+1, "the wait lies within [0.8, 1.2] x min(initial x multiplier^k, max) (to the nanosecond)")
	verifAssert(waited >= 0, "never negative")
	verifAssert(cs.numRetriesSincePushback == k+1, "the backoff exponent grows by one")
	if base == float64(p.max) {
		verifCover("capped")
	}
	verifCover("done")
}

// retry throttling: tokens stay within [0, max]; a failure costs one token, a success adds the ratio;
// retries are throttled exactly while tokens <= max/2
func verifH_C19_tokens() {
	max := verifFloat64("max")
	ratio := verifFloat64("ratio")
	tokens := verifFloat64("tokens")
	verifAssume(max > 0 && max <= 1000 && ratio > 0 && ratio <= 1000)
	verifAssume(tokens >= 0 && tokens <= max) // invariant: established by the constructor (tokens = max) and preserved below
	rt := &retryThrottler{max: max, thresh: max / 2, ratio: ratio, tokens: tokens}
	if verifBool("failure") {
		throttled := rt.throttle()
		verifAssert(rt.tokens >= 0 && rt.tokens <= max, "tokens stay within [0, max] after a failure")
		verifAssert(rt.tokens == tokens-1 || (tokens < 1 && rt.tokens == 0), "a failure costs exactly one token (not below zero)")
		verifAssert(throttled == (rt.tokens <= max/2), "retries are throttled exactly while tokens are at or below half of max")
		if throttled {
			verifCover("throttled")
		} else {
			verifCover("not-throttled")
		}
	} else {
		rt.successfulRPC()
		verifAssert(rt.tokens >= 0 && rt.tokens <= max, "tokens stay within [0, max] after a success")
		verifAssert(rt.tokens == tokens+ratio || (tokens+ratio > max && rt.tokens == max), "a success adds the token ratio (capped at max)")
		verifCover("success")
	}
	var nilRT *retryThrottler
	verifAssert(!nilRT.throttle(), "no throttling configured: never throttled")
}

// server pushback replaces the backoff by the given delay and restarts the exponent: the retry after a pushback
// waits [0.8, 1.2] x initial backoff again
func verifH_C19_pushback() {
	p := verifPolicies[verifChoice("policy", len(verifPolicies))]
	k := 1 + verifChoice("retries-before-the-pushback", 3)
	cs := &clientStream{cc: &ClientConn{}, ctx: context.Background(), methodConfig: &MethodConfig{}}
	cs.numRetries, cs.numRetriesSincePushback = k, k
	cs.methodConfig.RetryPolicy = &iserviceconfig.RetryPolicy{MaxAttempts: 10, InitialBackoff: p.initial, MaxBackoff: p.max,
		BackoffMultiplier: p.mult, RetryableStatusCodes: map[codes.Code]bool{codes.Unavailable: true}}
	// an attempt that ended with a trailers-only UNAVAILABLE carrying grpc-retry-pushback-ms
	ts := &transport.ClientStream{}
	done, hc := make(chan struct{}), make(chan struct{})
	close(done)
	close(hc)
	verifSetField(ts, "done", done)
	verifSetField(ts, "headerChan", hc)
	verifSetField(ts, "Stream.ctx", context.Background())
	verifSetField(ts, "noHeaders", true)
	verifSetField(ts, "status", status.New(codes.Unavailable, "try later"))
	ms := int64(verifChoice("pushback-ms", 3)) * 25 // 0, 25 or 50 ms
	verifSetField(ts, "Stream.trailer", metadata.MD{"grpc-retry-pushback-ms": []string{[...]string{"0", "25", "50"}[ms/25]}})
	a := &csAttempt{cs: cs, transportStream: ts}
	t0 := verifNow()
	transparent, err := a.shouldRetry(status.Error(codes.Unavailable, "x"))
	verifAssert(!transparent && err == nil, "the policy retries after a pushback")
	verifAssert(verifNow()-t0 == ms*int64(time.Millisecond), "the retry waits exactly the delay the server asked for")
	verifAssert(cs.numRetriesSincePushback == 0, "a pushback restarts the backoff exponent")
	// the next failure, without pushback
	a2 := &csAttempt{cs: cs}
	t1 := verifNow()
	transparent, err = a2.shouldRetry(status.Error(codes.Unavailable, "x"))
	waited := verifNow() - t1
	verifAssert(!transparent && err == nil, "the policy retries")
	base := float64(p.initial)
	if base > float64(p.max) {
		base = float64(p.max)
	}
	verifAssert(waited >= int64(base*0.8)-1 && waited <= int64(base*1.2)+1, "the retry after a pushback waits [0.8, 1.2] x initial backoff (k = 0)")
	verifCover("pushback")
}
