//go:build verif

// C20: connection backoff bounds (Exponential.Backoff).
//verif:pkg internal/backoff
//verif:bound loop=8 steps=2000000
//verif:timeout 60s
//verif:lazyfp
//verif:assume BaseDelay and MaxDelay are non-negative durations; Multiplier and Jitter are arbitrary float64 values (including NaN, infinities, jitter > 1, multiplier < 1) in the sign harness and satisfy multiplier >= 1, 0 <= jitter <= 1 in the range harness
//verif:outside retry counts above 3 (quick) / 6 (thorough) in the range harness; the pacing of addrConn.resetTransportAndUnlock (timer + backoffIdx) is not covered by this check
package backoff

import (
	"time"

	grpcbackoff "google.golang.org/grpc/backoff"
)

func verifCfg() grpcbackoff.Config {
	c := grpcbackoff.Config{
		BaseDelay:  time.Duration(verifInt64("base")),
		MaxDelay:   time.Duration(verifInt64("max")),
		Multiplier: verifFloat64("mult"),
		Jitter:     verifFloat64("jitter"),
	}
	verifAssume(c.BaseDelay >= 0 && c.MaxDelay >= 0)
	return c
}

// never negative, for any configuration and any retry count in the bound; retries 0 gives the base delay
func verifH_C20_sign() {
	c := verifCfg()
	n := verifChoice("retries", 4)
	d := Exponential{Config: c}.Backoff(n)
	verifAssert(d >= 0, "backoff is never negative")
	if n == 0 {
		verifAssert(d == c.BaseDelay, "retry count 0 gives the base delay")
		verifCover("zero")
	} else {
		verifCover("retry")
	}
}

// for multiplier >= 1 and jitter in [0,1]: within [(1-j), (1+j)] x min(base x mult^n, max), saturating
func verifH_C20_range() {
	c := verifCfg()
	verifAssume(c.Multiplier >= 1 && c.Jitter >= 0 && c.Jitter <= 1)
	n := 1 + verifChoice("retries", 3)
	d := Exponential{Config: c}.Backoff(n)
	basef, maxf := float64(c.BaseDelay), float64(c.MaxDelay)
	// reference: min(base x mult^n, max), multiplications stop once the cap is reached
	ref := basef
	for k := 0; k < n && ref < maxf; k++ {
		ref *= c.Multiplier
	}
	if ref > maxf {
		ref = maxf
	}
	df := float64(d)
	verifAssert(df <= ref*(1+c.Jitter), "at most (1+jitter) x min(base x mult^n, max)")
	verifAssert(df+1 >= ref*(1-c.Jitter), "at least (1-jitter) x min(base x mult^n, max) (truncated to a nanosecond)")
	verifAssert(df <= maxf*(1+c.Jitter), "never above (1+jitter) x MaxDelay")
	lo := basef
	if maxf < lo {
		lo = maxf
	}
	verifAssert(df+1 >= lo*(1-c.Jitter), "never below (1-jitter) x min(BaseDelay, MaxDelay)")
	if ref*(1+c.Jitter) >= 9223372036854775808.0 {
		verifCover("huge")
	}
	verifCover("range")
}
