//go:build verif

// C20: connection backoff bounds (Exponential.Backoff).
//verif:pkg internal/backoff
//verif:bound loop=8 steps=2000000
//verif:timeout 60s
//verif:lazyfp
//verif:assume BaseDelay and MaxDelay are non-negative durations; Multiplier and Jitter are ARBITRARY float64 values (including NaN, infinities, jitter > 1, multiplier < 1)
//verif:outside retry counts above 2; the two-sided range clause [(1-jitter),(1+jitter)] x min(base x mult^n, max): its query (64-bit int->float->int conversions around a product chain) is not discharged by any installed solver within minutes even after abstracting the multiplications, so it is NOT decided; the pacing of addrConn.resetTransportAndUnlock (timer + backoffIdx)
package backoff

import (
	"time"

	grpcbackoff "google.golang.org/grpc/backoff"
)

func verifCfg() grpcbackoff.Config {
	c := grpcbackoff.Config{
		BaseDelay:  time.Duration(verifInt64("base")),
		MaxDelay:   time.Duration(verifInt64("max")),
		Multiplier: verifFloat64("mult"),
		Jitter:     verifFloat64("jitter"),
	}
	verifAssume(c.BaseDelay >= 0 && c.MaxDelay >= 0)
	return c
}

// never negative, for any configuration and any retry count in the bound; retries 0 gives the base delay
func verifH_C20_sign() {
	c := verifCfg()
	n := verifChoice("retries", 3)
	d := Exponential{Config: c}.Backoff(n)
	verifAssert(d >= 0, "backoff is never negative")
	if n == 0 {
		verifAssert(d == c.BaseDelay, "retry count 0 gives the base delay")
		verifCover("zero")
	} else if n == 1 {
		verifCover("retry")
	}
}
