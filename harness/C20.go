//go:build verif

// C20: connection backoff bounds (Exponential.Backoff).
//verif:pkg internal/backoff
//verif:bound loop=8 steps=2000000
//verif:timeout 60s
//verif:lazyfp
//verif:assume BaseDelay and MaxDelay are non-negative durations; Multiplier and Jitter are ARBITRARY float64 values (including NaN, infinities, jitter > 1, multiplier < 1)
//verif:outside retry counts above 2 in the sign entry (6 in the range entry); the two-sided range clause is decided for 4 concrete configurations and every jitter draw, not for arbitrary configurations (64-bit int->float->int conversions around a product chain of symbolic factors are not discharged by any back end)
package backoff

import (
	"time"

	grpcbackoff "google.golang.org/grpc/backoff"
)

func verifCfg() grpcbackoff.Config {
	c := grpcbackoff.Config{
		BaseDelay:  time.Duration(verifInt64("base")),
		MaxDelay:   time.Duration(verifInt64("max")),
		Multiplier: verifFloat64("mult"),
		Jitter:     verifFloat64("jitter"),
	}
	verifAssume(c.BaseDelay >= 0 && c.MaxDelay >= 0)
	return c
}

// never negative, for any configuration and any retry count in the bound; retries 0 gives the base delay
func verifH_C20_sign() {
	c := verifCfg()
	n := verifChoice("retries", 3)
	d := Exponential{Config: c}.Backoff(n)
	verifAssert(d >= 0, "backoff is never negative")
	if n == 0 {
		verifAssert(d == c.BaseDelay, "retry count 0 gives the base delay")
		verifCover("zero")
	} else if n == 1 {
		verifCover("retry")
	}
}

// the two-sided range clause, for concrete configurations (so that base x multiplier^n is a constant) and EVERY jitter
// draw in [0,1): the delay lies within [(1-jitter), (1+jitter)] x min(base x multiplier^n, max)
var verifC20Cfgs = [...]grpcbackoff.Config{
	{BaseDelay: time.Second, Multiplier: 1.6, Jitter: 0.2, MaxDelay: 120 * time.Second}, // grpc's default connection backoff
	{BaseDelay: 100 * time.Millisecond, Multiplier: 2, Jitter: 0.5, MaxDelay: time.Second},
	{BaseDelay: time.Millisecond, Multiplier: 10, Jitter: 0, MaxDelay: time.Hour},
	{BaseDelay: 3 * time.Second, Multiplier: 1, Jitter: 1, MaxDelay: 2 * time.Second}, // base above max, full jitter
}

//verif:thoroughonly verifH_C20_range
func verifH_C20_range() {
	c := verifC20Cfgs[verifChoice("configuration", len(verifC20Cfgs))]
	n := 1 + verifChoice("retries", 6)
	d := Exponential{Config: c}.Backoff(n)
	exp := float64(c.BaseDelay)
	for i := 0; i < n && exp < float64(c.MaxDelay); i++ {
		exp *= c.Multiplier
	}
	if exp > float64(c.MaxDelay) {
		exp = float64(c.MaxDelay)
	}
	lo, hi := int64(exp*(1-c.Jitter)), int64(exp*(1+c.Jitter))
	verifAssert(int64(d) >= lo-1 && int64(d) <= hi+1, "the delay lies within [(1-jitter), (1+jitter)] x min(base x multiplier^n, max), to the nanosecond")
	verifAssert(d >= 0, "never negative")
	if exp == float64(c.MaxDelay) {
		verifCover("capped")
	}
	verifCover("range")
}
