//go:build verif

// C21: effective message-size limits are the minimum of the configured limits and are enforced.
//verif:pkg .
//verif:bound loop=40 steps=4000000
//verif:outside the codec/compressor producing the payload (a symbolic-length buffer stands for any encoded message); decompression limits (see C06)
package grpc

import (
	"google.golang.org/grpc/codes"
	"google.golang.org/grpc/mem"
	"google.golang.org/grpc/status"
)

func verifOptInt(name string) *int {
	if verifBool(name + ".set") {
		v := verifInt(name)
		return &v
	}
	return nil
}

// getMaxSize: min of the two when both set, the one that is set, else the default.
func verifH_C21_min() {
	mc := verifOptInt("mc")
	do := verifOptInt("dopt")
	def := verifInt("def")
	got := getMaxSize(mc, do, def)
	verifAssert(got != nil, "a limit is always produced")
	switch {
	case mc == nil && do == nil:
		verifAssert(*got == def, "neither set: default")
		verifCover("default")
	case mc != nil && do != nil:
		m := *mc
		if *do < m {
			m = *do
		}
		verifAssert(*got == m, "both set: the smaller")
		verifCover("both")
	case mc != nil:
		verifAssert(*got == *mc, "only service config set")
		verifCover("mc-only")
	default:
		verifAssert(*got == *do, "only option set")
		verifCover("dopt-only")
	}
}

// fake stream reader serving an arbitrary 5-byte header and a body of the requested size
type verifSR struct {
	hdr       [5]byte
	hdrErr    error
	asked     int
	askedBody bool
	bodyErr   error
}

func (r *verifSR) ReadMessageHeader(h []byte) error {
	if r.hdrErr != nil {
		return r.hdrErr
	}
	copy(h, r.hdr[:])
	return nil
}

func (r *verifSR) Read(n int) (mem.BufferSlice, error) {
	r.askedBody = true
	r.asked = n
	if r.bodyErr != nil {
		return nil, r.bodyErr
	}
	return mem.BufferSlice{mem.SliceBuffer(make([]byte, 0))}, nil
}

// parser.recvMsg: a frame whose declared length exceeds the receive limit is rejected with
// RESOURCE_EXHAUSTED before any body byte is requested; otherwise exactly the declared length is read.
func verifH_C21_recv() {
	sr := &verifSR{}
	for i := 0; i < 5; i++ {
		sr.hdr[i] = verifUint8("h")
	}
	limit := verifInt("limit")
	p := &parser{r: sr}
	pf, _, err := p.recvMsg(limit)
	length := uint64(sr.hdr[1])<<24 | uint64(sr.hdr[2])<<16 | uint64(sr.hdr[3])<<8 | uint64(sr.hdr[4])
	if limit < 0 || length > uint64(limit) {
		verifAssert(err != nil && status.Code(err) == codes.ResourceExhausted, "over-limit frame fails with RESOURCE_EXHAUSTED")
		verifAssert(!sr.askedBody, "no body byte requested for an over-limit frame")
		verifCover("rejected")
	} else {
		verifAssert(err == nil, "frame within the limit accepted")
		verifAssert(sr.askedBody && uint64(sr.asked) == length, "exactly the declared length is read")
		verifAssert(uint8(pf) == sr.hdr[0], "payload format flag passed through")
		verifCover("accepted")
	}
}
