//go:build verif

// C22 (part a): a pick blocked waiting for a usable picker ends with the context's error code.
//verif:pkg .
//verif:bound loop=40 steps=6000000 preempt=2 paths=600000
//verif:noreplay schedule-dependent and virtual-clock based: witnesses are re-executed deterministically in the engine
//verif:outside wall-clock bounds ("within a bounded time" is decided as: the cancelled alternative is enabled and taken, so the RPC is not blocked at quiescence); the stream-quota wait in NewStream
package grpc

import (
	"context"
	"time"

	"google.golang.org/grpc/balancer"
	"google.golang.org/grpc/codes"
	"google.golang.org/grpc/status"
)

type verifBlockingPicker struct{}

func (verifBlockingPicker) Pick(balancer.PickInfo) (balancer.PickResult, error) {
	return balancer.PickResult{}, balancer.ErrNoSubConnAvailable
}

func verifH_C22_pick() {
	pw := newPickerWrapper()
	if verifBool("picker-installed") {
		pw.updatePicker(verifBlockingPicker{}) // a picker that has nothing to offer: the RPC waits for the next one
	}
	useDeadline := verifBool("deadline")
	var ctx context.Context
	var cancel context.CancelFunc
	if useDeadline {
		ctx, cancel = context.WithTimeout(context.Background(), time.Second)
	} else {
		ctx, cancel = context.WithCancel(context.Background())
	}
	returned := false
	var err error
	go func() {
		verifDaemon()
		_, err = pw.pick(ctx, verifBool("failfast"), balancer.PickInfo{})
		returned = true
	}()
	if !useDeadline {
		go cancel() // the application cancels at an arbitrary point
	}
	verifAtQuiescence(func() {
		verifAssert(returned, "a blocked pick is released by cancellation or by the deadline")
		want := codes.Canceled
		if useDeadline {
			want = codes.DeadlineExceeded
		}
		verifAssert(status.Code(err) == want, "with CANCELLED for a cancelled context and DEADLINE_EXCEEDED for an expired one")
		if useDeadline {
			verifCover("deadline")
		} else {
			verifCover("cancelled")
		}
		cancel()
	})
}
