//go:build verif

// C22 (part b): transport-level blocking points and the server-side deadline.
//verif:pkg internal/transport
//verif:bound loop=64 steps=8000000 preempt=2 paths=600000
//verif:noreplay schedule-dependent and virtual-clock based: witnesses are re-executed deterministically in the engine
//verif:outside grpc-timeout values other than the listed ones (the encode/decode pair is C07)
package transport

import (
	"context"
	"time"

	"golang.org/x/net/http2"
	"golang.org/x/net/http2/hpack"
	"google.golang.org/grpc/codes"
	"google.golang.org/grpc/status"
)

// a server-side reader blocked for data returns the context error as a status
func verifH_C22_read() {
	useDeadline := verifBool("deadline")
	var ctx context.Context
	var cancel context.CancelFunc
	if useDeadline {
		ctx, cancel = context.WithTimeout(context.Background(), time.Second)
	} else {
		ctx, cancel = context.WithCancel(context.Background())
	}
	rb := &recvBuffer{}
	rb.init(nil)
	rd := &recvBufferReader{ctx: ctx, ctxDone: ctx.Done(), recv: rb}
	returned := false
	var err error
	go func() {
		verifDaemon()
		_, err = rd.Read(5)
		returned = true
	}()
	if !useDeadline {
		go cancel()
	}
	verifAtQuiescence(func() {
		verifAssert(returned, "a reader blocked for data is released by cancellation or by the deadline")
		want := codes.Canceled
		if useDeadline {
			want = codes.DeadlineExceeded
		}
		verifAssert(status.Code(err) == want, "with the matching status code")
		_, err2 := rd.Read(1)
		verifAssert(err2 != nil, "and the error is sticky")
		verifCover("done")
		cancel()
	})
}

// a client blocked reading a message body (or a message header) is released by its context: the real client stream
// and http2Client.closeStream are executed, so the stream is also closed with RST_STREAM(CANCEL)
func verifH_C22_readclient() {
	useDeadline := verifBool("deadline")
	header := verifBool("blocked-on-the-message-header")
	var ctx context.Context
	var cancel context.CancelFunc
	if useDeadline {
		ctx, cancel = context.WithTimeout(context.Background(), time.Second)
	} else {
		ctx, cancel = context.WithCancel(context.Background())
	}
	done := make(chan struct{})
	tctx, tcancel := context.WithCancel(context.Background())
	t := &http2Client{ctx: tctx, cancel: tcancel, controlBuf: newControlBuffer(done), activeStreams: map[uint32]*ClientStream{}, streamsQuotaAvailable: make(chan struct{}, 1)}
	s := t.newStream(ctx, &CallHdr{Method: "/s/m"}, nil)
	s.id = 1
	t.activeStreams[1] = s
	returned := false
	var err error
	go func() {
		verifDaemon()
		if header {
			var hdr [5]byte
			_, err = s.trReader.reader.ReadMessageHeader(hdr[:])
		} else {
			_, err = s.trReader.reader.Read(5)
		}
		returned = true
	}()
	if !useDeadline {
		go cancel()
	}
	verifAtQuiescence(func() {
		verifAssert(returned, "a client blocked reading a message is released by cancellation or by the deadline")
		want := codes.Canceled
		if useDeadline {
			want = codes.DeadlineExceeded
		}
		verifAssert(status.Code(err) == want, "with the matching status code")
		rst := 0
		for {
			it, _ := t.controlBuf.get(false)
			if it == nil {
				break
			}
			if c, ok := it.(*cleanupStream); ok && c.rst && c.rstCode == http2.ErrCodeCancel && c.streamID == 1 {
				rst++
			}
		}
		verifAssert(rst == 1, "and the server is told with RST_STREAM(CANCEL), once")
		verifCover("done")
		cancel()
		tcancel()
	})
}

// a writer blocked on flow-control quota is released when the stream ends
func verifH_C22_write() {
	done := make(chan struct{})
	w := &writeQuota{}
	w.init(4, done)
	returned := false
	var err error
	go func() {
		verifDaemon()
		w.get(4)
		err = w.get(1) // blocks: the quota is exhausted
		returned = true
	}()
	go close(done) // the stream is cancelled / its deadline passes
	verifAtQuiescence(func() {
		verifAssert(returned && err == errStreamDone, "a writer blocked on flow control is released when the stream ends")
		verifCover("done")
	})
}

// the server handler's context carries the decoded grpc-timeout and the stream is reset when it expires
func verifH_C22_serverdeadline() {
	t := verifNewServerC22()
	tv := [...]string{"1S", "250m", "2H"}[verifChoice("grpc-timeout", 3)]
	want := [...]time.Duration{time.Second, 250 * time.Millisecond, 2 * time.Hour}
	frame := verifC22Frame(tv)
	var got *ServerStream
	start := time.Now()
	err := t.operateHeaders(context.Background(), frame, func(s *ServerStream) { got = s })
	verifAssert(err == nil && got != nil, "request accepted")
	if got == nil {
		return
	}
	dl, ok := got.Context().Deadline()
	verifAssert(ok, "the handler context carries a deadline")
	d := want[0]
	switch tv {
	case "250m":
		d = want[1]
	case "2H":
		d = want[2]
	}
	verifAssert(dl.Sub(start) == d, "no earlier (and here: exactly) the time the client had left when it sent the request")
	verifAssert(got.Context().Err() == nil, "not yet expired")
	verifAtQuiescence(func() {
		// virtual time has advanced to the deadline
		verifAssert(got.Context().Err() == context.DeadlineExceeded, "the handler context is cancelled when the deadline passes")
		rst := 0
		for {
			it, _ := t.controlBuf.get(false)
			if it == nil {
				break
			}
			if c, ok := it.(*cleanupStream); ok && c.rst && c.rstCode == http2.ErrCodeCancel && c.streamID == 1 {
				rst++
			}
		}
		verifAssert(rst == 1, "and the stream is reset with CANCEL exactly once")
		verifCover("expired")
	})
}

func verifNewServerC22() *http2Server {
	done := make(chan struct{})
	return &http2Server{controlBuf: newControlBuffer(done), done: done, maxStreams: 10, activeStreams: map[uint32]*ServerStream{}, initialWindowSize: 65535}
}

func verifC22Frame(timeout string) *http2.MetaHeadersFrame {
	f := []hpack.HeaderField{{Name: ":method", Value: "POST"}, {Name: ":path", Value: "/s/m"}, {Name: ":authority", Value: "a"},
		{Name: "content-type", Value: "application/grpc"}, {Name: "grpc-timeout", Value: timeout}}
	return &http2.MetaHeadersFrame{HeadersFrame: &http2.HeadersFrame{FrameHeader: http2.FrameHeader{Type: http2.FrameHeaders, StreamID: 1,
		Flags: http2.FlagHeadersEndHeaders}}, Fields: f}
}
