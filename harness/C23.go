//go:build verif

// C23: every successful pick's Done callback runs exactly once.
//verif:pkg .
//verif:bound loop=40 steps=6000000 preempt=1 paths=1500000
//verif:stub math/rand/v2.Float64 => verifStubRand23
//verif:stub (*google.golang.org/grpc/internal/transport.ClientStream).Close => verifStubCSClose
//verif:noop google.golang.org/grpc/internal/channelz.Infof
//verif:noop google.golang.org/grpc/internal/channelz.Warningf
//verif:noreplay stubbed (rand, ClientStream.Close) and schedule-dependent: witnesses are re-executed deterministically in the engine from the recorded decision prefix
//verif:outside the transport (NewStream is a harness transport that fails or succeeds per path; ClientStream.Close is a stub that closes the stream's done channel); more than 4 picks per RPC; hedging; binary logging, stats handlers, tracing; pick/picker-update races beyond preemption bound 1 (C32 decides those)
package grpc

import (
	"context"
	"time"

	"google.golang.org/grpc/balancer"
	"google.golang.org/grpc/codes"
	"google.golang.org/grpc/connectivity"
	iserviceconfig "google.golang.org/grpc/internal/serviceconfig"
	"google.golang.org/grpc/internal/transport"
	"google.golang.org/grpc/stats"
	"google.golang.org/grpc/status"
)

func verifStubRand23() float64 { return 0.5 }

type verifStreamInfo struct {
	done   chan struct{}
	closed bool
	fails  bool // the server ends this stream with UNAVAILABLE after it was created
}

var verifStreams map[*transport.ClientStream]*verifStreamInfo

// closing a stream ends it (as closeStream does), idempotently
func verifStubCSClose(s *transport.ClientStream, err error) {
	if si := verifStreams[s]; si != nil && !si.closed {
		si.closed = true
		close(si.done)
	}
}

type verifDonePicker struct {
	max     int
	done    []int  // Done invocations per pick
	hasDone []bool // the pick result carried a Done callback
	ready   []bool
	scReady *acBalancerWrapper
	scNot   *acBalancerWrapper
	pw      *pickerWrapper
}

func (p *verifDonePicker) Pick(balancer.PickInfo) (balancer.PickResult, error) {
	i := len(p.done)
	if i >= p.max {
		return balancer.PickResult{}, status.Error(codes.ResourceExhausted, "pick budget of the harness exhausted") // ends the RPC
	}
	p.done = append(p.done, 0)
	withDone := verifBool("pick-has-Done")
	ready := verifBool("picked-subchannel-ready")
	p.hasDone = append(p.hasDone, withDone)
	p.ready = append(p.ready, ready)
	r := balancer.PickResult{SubConn: p.scNot}
	if ready {
		r.SubConn = p.scReady
	} else {
		go p.pw.updatePicker(p) // the balancer publishes a new picker when the subchannel's state changes
	}
	if withDone {
		r.Done = func(balancer.DoneInfo) { p.done[i]++ }
	}
	return r, nil
}

type verifNSTransport struct {
	transport.ClientTransport
	streams int
}

func (t *verifNSTransport) NewStream(ctx context.Context, hdr *transport.CallHdr, sh stats.Handler) (*transport.ClientStream, error) {
	switch verifChoice("NewStream", 3) {
	case 0:
		return nil, &transport.NewStreamError{Err: status.Error(codes.Unavailable, "conn closing"), AllowTransparentRetry: true}
	case 1:
		return nil, &transport.NewStreamError{Err: status.Error(codes.Unavailable, "refused"), AllowTransparentRetry: false}
	}
	t.streams++
	ts := &transport.ClientStream{}
	verifSetField(ts, "Stream.ctx", ctx)
	si := &verifStreamInfo{done: make(chan struct{}), fails: verifBool("server-fails-stream")}
	verifSetField(ts, "done", si.done)
	hc := make(chan struct{})
	close(hc)
	verifSetField(ts, "headerChan", hc)
	if si.fails { // a trailers-only UNAVAILABLE response: the retryable shape
		verifSetField(ts, "status", status.New(codes.Unavailable, "server went away"))
		verifSetField(ts, "noHeaders", true)
	}
	verifStreams[ts] = si
	return ts, nil
}

func verifNewDonePicker(max int, pw *pickerWrapper) *verifDonePicker {
	verifStreams = map[*transport.ClientStream]*verifStreamInfo{}
	return &verifDonePicker{max: max, pw: pw,
		scReady: &acBalancerWrapper{ac: &addrConn{state: connectivity.Ready, transport: &verifNSTransport{}}},
		scNot:   &acBalancerWrapper{ac: &addrConn{state: connectivity.Connecting}}}
}

func (p *verifDonePicker) check(when string) {
	for i := range p.done {
		if p.hasDone[i] {
			verifAssert(p.done[i] <= 1, when+": Done is never invoked twice")
			verifAssert(p.done[i] >= 1, when+": Done is invoked for every pick that carried one")
		} else {
			verifAssert(p.done[i] == 0, when)
		}
	}
}

// pickerWrapper.pick: a pick whose subchannel is not READY has its Done invoked by pick itself;
// a pick that is returned to the caller has not been completed yet.
func verifH_C23_pick() {
	pw := newPickerWrapper()
	p := verifNewDonePicker(3, pw)
	pw.updatePicker(p)
	res, err := pw.pick(context.Background(), verifBool("failfast"), balancer.PickInfo{})
	n := len(p.done)
	if err == nil {
		verifAssert(n >= 1 && p.ready[n-1], "a pick is returned only for a READY subchannel")
		verifAssert(p.done[n-1] == 0, "the returned pick's Done is left to the caller")
		verifAssert((res.result.Done != nil) == p.hasDone[n-1], "the picker's Done callback is handed to the caller unchanged")
		if res.result.Done != nil {
			res.result.Done(balancer.DoneInfo{})
		}
		verifCover("picked")
	} else {
		verifCover("pick-failed")
	}
	for i := 0; i < n; i++ {
		verifAssert(p.ready[i] == (i == n-1 && err == nil), "earlier picks were discarded because their subchannel was not READY")
	}
	p.check("after pick")
	if n == 3 {
		verifCover("three-picks")
	}
}

// a blocked pick is woken by a picker update and by cancellation of the RPC's context
func verifH_C23_wake() {
	pw := newPickerWrapper()
	p := verifNewDonePicker(2, pw)
	ctx, cancel := context.WithCancel(context.Background())
	returned := false
	var err error
	go func() {
		verifDaemon()
		var res pick
		res, err = pw.pick(ctx, false, balancer.PickInfo{})
		if err == nil && res.result.Done != nil {
			res.result.Done(balancer.DoneInfo{}) // the caller completes the pick it was handed
		}
		returned = true
	}()
	byUpdate := verifBool("wake-by-picker-update")
	if byUpdate {
		pw.updatePicker(p)
	} else {
		cancel()
	}
	verifAtQuiescence(func() {
		if byUpdate {
			verifAssert(len(p.done) >= 1, "a pick blocked waiting for a picker is woken by a picker update")
			p.check("after wake-up")
			verifCover("woken-by-update")
		} else {
			verifAssert(returned && status.Code(err) == codes.Canceled, "a pick blocked waiting for a picker is woken by context cancellation")
			verifCover("woken-by-cancel")
		}
		cancel()
	})
}

// the RPC layer: attempts created through withRetry / retryLocked, finished by clientStream.finish
func verifH_C23_rpc() {
	ctx, cancel := context.WithCancel(context.Background())
	cc := &ClientConn{ctx: ctx, pickerWrapper: newPickerWrapper()}
	p := verifNewDonePicker(4, cc.pickerWrapper)
	cc.pickerWrapper.updatePicker(p)
	cs := &clientStream{cc: cc, ctx: ctx, cancel: cancel, callHdr: &transport.CallHdr{Method: "/s/m"}, callInfo: &callInfo{failFast: true},
		desc: &StreamDesc{}, methodConfig: &MethodConfig{}, firstAttempt: true}
	if verifBool("retry-policy") {
		cs.methodConfig.RetryPolicy = &iserviceconfig.RetryPolicy{MaxAttempts: 3, InitialBackoff: time.Millisecond, MaxBackoff: time.Second,
			BackoffMultiplier: 2, RetryableStatusCodes: map[codes.Code]bool{codes.Unavailable: true}}
	}
	// the first buffered operation, exactly as newClientStreamWithParams builds it
	op := func(a *csAttempt) error {
		if err := a.getTransport(); err != nil {
			return err
		}
		if err := a.newStream(); err != nil {
			return err
		}
		cs.attempt = a
		return nil
	}
	err := cs.withRetry(op, func() { cs.bufferForRetryLocked(0, op, nil) })
	if err != nil {
		verifCover("stream-creation-failed")
	} else {
		verifAssert(cs.attempt != nil && cs.attempt.transportStream != nil, "a created stream has an attempt with a transport stream")
		verifCover("stream-created")
		if verifBool("application-cancels") {
			err = status.Error(codes.Canceled, "cancelled")
		} else {
			// the first receive, shaped as RecvMsg builds it: a stream the server fails reports UNAVAILABLE,
			// which may be retried on a new attempt that replays the buffered stream creation
			err = cs.withRetry(func(a *csAttempt) error {
				if verifStreams[a.transportStream].fails {
					return status.Error(codes.Unavailable, "server went away")
				}
				return nil
			}, cs.commitAttemptLocked)
			if err != nil {
				verifCover("receive-failed")
			}
		}
	}
	cs.finish(err)
	cs.finish(err) // idempotent
	p.check("after the RPC finished")
	if len(p.done) >= 2 {
		verifCover("retried")
	}
}
