//go:build verif

// C24: every RPC error is a status with a legal code (error conversion and the gRFC A54 restriction).
//verif:pkg .
//verif:bound loop=16 steps=4000000
//verif:outside error values outside the grammar {nil, io.EOF, io.ErrUnexpectedEOF, context errors, ConnectionError, *NewStreamError wrapping one of these, status errors of any uint32 code, plain errors}; per-RPC-credential call sites in the transport (same predicate, not exercised here)
package grpc

import (
	"context"
	"errors"
	"io"

	"google.golang.org/grpc/balancer"
	"google.golang.org/grpc/codes"
	istatus "google.golang.org/grpc/internal/status"
	"google.golang.org/grpc/internal/transport"
	"google.golang.org/grpc/status"
)

func verifRestricted(c codes.Code) bool {
	return c == codes.InvalidArgument || c == codes.NotFound || c == codes.AlreadyExists || c == codes.FailedPrecondition ||
		c == codes.Aborted || c == codes.OutOfRange || c == codes.DataLoss
}

// IsRestrictedControlPlaneCode == membership in the A54 list, for every uint32 code
func verifH_C24_a54() {
	c := codes.Code(verifUint32("code"))
	got := istatus.IsRestrictedControlPlaneCode(status.New(c, "m"))
	verifAssert(got == verifRestricted(c), "restricted exactly for the seven gRFC A54 data-plane codes")
	if got {
		verifCover("restricted")
	} else {
		verifCover("allowed")
	}
}

func verifBaseErr(k int, c codes.Code) error {
	switch k {
	case 0:
		return io.EOF
	case 1:
		return io.ErrUnexpectedEOF
	case 2:
		return context.DeadlineExceeded
	case 3:
		return context.Canceled
	case 4:
		return transport.ConnectionError{Desc: "conn"}
	case 5:
		return status.Error(c, "st")
	}
	return errors.New("plain")
}

// toRPCErr: the result is nil, io.EOF or a status error with the documented code
func verifH_C24_conv() {
	k := verifChoice("kind", 7)
	c := codes.Code(verifUint32("code"))
	verifAssume(c != codes.OK)
	err := verifBaseErr(k, c)
	wrapped := verifBool("wrapped")
	if wrapped {
		err = &transport.NewStreamError{Err: err}
	}
	got := toRPCErr(err)
	if k == 0 {
		verifAssert(got == io.EOF, "io.EOF passes through")
		verifCover("eof")
		return
	}
	st, ok := status.FromError(got)
	verifAssert(got != nil && ok, "every other error becomes a status error")
	want := codes.Unknown
	switch k {
	case 1:
		want = codes.Internal
	case 2:
		want = codes.DeadlineExceeded
	case 3:
		want = codes.Canceled
	case 4:
		want = codes.Unavailable
	case 5:
		want = c
	}
	verifAssert(st.Code() == want, "documented code for each error kind")
	if wrapped {
		verifCover("wrapped")
	}
	verifCover("status")
}

type verifErrPicker struct{ err error }

func (p *verifErrPicker) Pick(balancer.PickInfo) (balancer.PickResult, error) {
	return balancer.PickResult{}, p.err
}

// a picker's status error ends the RPC with that status, restricted codes surfaced as INTERNAL;
// other picker errors fail fail-fast RPCs with UNAVAILABLE
func verifH_C24_picker() {
	c := codes.Code(verifUint32("code"))
	verifAssume(c != codes.OK)
	isStatus := verifBool("status")
	var perr error
	if isStatus {
		perr = status.Error(c, "picker")
	} else {
		perr = errors.New("picker failed")
	}
	pw := newPickerWrapper()
	pw.updatePicker(&verifErrPicker{err: perr})
	_, err := pw.pick(context.Background(), true, balancer.PickInfo{})
	verifAssert(err != nil, "failing picker fails the fail-fast RPC")
	if de, ok := err.(dropError); ok {
		err = de.error
	}
	err = toRPCErr(err) // as newAttemptLocked/newClientStream do
	st, ok := status.FromError(err)
	verifAssert(ok, "the RPC error carries a status")
	if !isStatus {
		verifAssert(st.Code() == codes.Unavailable, "non-status picker error: UNAVAILABLE")
		verifCover("non-status")
	} else if verifRestricted(c) {
		verifAssert(st.Code() == codes.Internal, "restricted picker code surfaced as INTERNAL")
		verifCover("restricted")
	} else {
		verifAssert(st.Code() == c, "allowed picker code passed through")
		verifCover("allowed")
	}
}
