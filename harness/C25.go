//go:build verif

// C25: server stop semantics and the per-connection handler limit.
//verif:pkg .
//verif:bound loop=40 steps=6000000 preempt=2 paths=1500000
//verif:stub (*google.golang.org/grpc.Server).handleStream => verifStubHandleStream
//verif:noop google.golang.org/grpc/internal/channelz.RemoveEntry
//verif:noreplay schedule-dependent: witnesses are re-executed deterministically in the engine from the recorded decision prefix
//verif:outside the accept loop and real transports (a harness ServerTransport delivers up to 3 streams and ends when closed or drained); what clients observe on the wire; more than one connection and 3 requests; preemption bound 2
package grpc

import (
	"context"
	"sync"

	"google.golang.org/grpc/internal/channelz"
	"google.golang.org/grpc/internal/grpcsync"
	"google.golang.org/grpc/internal/transport"
	"google.golang.org/grpc/peer"
)

var (
	verifRunning, verifMaxRunning, verifFinished, verifStarted int
	verifHandlerMu                                            sync.Mutex
)

func verifStubHandleStream(s *Server, t transport.ServerTransport, stream *transport.ServerStream) {
	verifHandlerMu.Lock()
	verifRunning++
	verifStarted++
	if verifRunning > verifMaxRunning {
		verifMaxRunning = verifRunning
	}
	verifHandlerMu.Unlock()
	verifYield() // the handler takes time
	verifHandlerMu.Lock()
	verifRunning--
	verifFinished++
	verifHandlerMu.Unlock()
}

type verifST struct {
	transport.ServerTransport
	n       int
	stop    chan struct{}
	once    sync.Once
	closes  int
	drains  int
	mu      sync.Mutex
	deliver int
}

func (t *verifST) HandleStreams(ctx context.Context, handle func(*transport.ServerStream)) {
	for i := 0; i < t.n; i++ {
		select {
		case <-t.stop:
			return
		default:
		}
		t.mu.Lock()
		t.deliver++
		t.mu.Unlock()
		handle(&transport.ServerStream{})
	}
	<-t.stop // the connection stays open until it is closed or has drained
}
func (t *verifST) Close(error) {
	t.mu.Lock()
	t.closes++
	t.mu.Unlock()
	t.once.Do(func() { close(t.stop) })
}
func (t *verifST) Drain(string) {
	t.mu.Lock()
	t.drains++
	t.mu.Unlock()
	t.once.Do(func() { close(t.stop) }) // a drained connection ends once its streams are done; no new streams arrive
}
func (t *verifST) Peer() *peer.Peer { return &peer.Peer{} }

var verifC25Workers, verifC25Streams = false, 3

// with a stream-worker goroutine (NumStreamWorkers(1)): 2 requests, MaxConcurrentStreams 1, preemption bound 1
//
//verif:entry verifH_C25_stop_workers both preempt=1
func verifH_C25_stop_workers() {
	verifC25Workers, verifC25Streams = true, 2
	verifH_C25_stop()
}

func verifH_C25_stop() {
	verifRunning, verifMaxRunning, verifFinished, verifStarted = 0, 0, 0, 0
	quota := uint32(1)
	if !verifC25Workers {
		quota = uint32(1 + verifChoice("MaxConcurrentStreams", 2))
	}
	s := &Server{quit: grpcsync.NewEvent(), done: grpcsync.NewEvent(), conns: map[string]map[transport.ServerTransport]bool{}, channelz: &channelz.Server{}}
	s.cv = sync.NewCond(&s.mu)
	s.opts.maxConcurrentStreams = quota
	if verifC25Workers { // NumStreamWorkers(1): handlers are handed to an idle worker goroutine when there is one
		s.opts.numServerWorkers = 1
		s.initServerWorkers()
		verifCover("with-stream-workers")
	}
	st := &verifST{n: verifC25Streams, stop: make(chan struct{})}
	graceful := verifBool("graceful")
	connRefused := false
	go func() { // the connection's goroutine, as handleRawConn starts it
		if !s.addConn("addr", st) {
			connRefused = true
			return
		}
		s.serveStreams(context.Background(), st, nil)
		s.removeConn("addr", st)
	}()
	stopped := false
	finishedAtStop, startedAtStop := -1, -1
	go func() { // the application stops the server at an arbitrary point
		if graceful {
			s.GracefulStop()
		} else {
			s.Stop()
		}
		verifHandlerMu.Lock()
		finishedAtStop, startedAtStop = verifFinished, verifStarted
		verifHandlerMu.Unlock()
		stopped = true
	}()
	verifAtQuiescence(func() {
		verifAssert(stopped, "Stop / GracefulStop return")
		verifAssert(verifMaxRunning <= int(quota), "no more than MaxConcurrentStreams handlers run at once on a connection")
		if graceful {
			verifAssert(finishedAtStop == startedAtStop, "GracefulStop returns only after every handler that was started has returned")
		}
		verifAssert(verifFinished == verifStarted, "every handler eventually finishes")
		if connRefused {
			verifAssert(st.closes >= 1, "a connection arriving after the stop is closed, not served")
			verifCover("connection-refused-after-stop")
		} else if graceful {
			verifAssert(st.drains >= 1 || st.closes >= 1, "an accepted connection is told to drain")
		} else {
			verifAssert(st.closes >= 1, "Stop closes every connection")
		}
		late := &verifST{stop: make(chan struct{})}
		verifAssert(!s.addConn("late", late) && late.closes == 1, "no connection is accepted after the server stopped")
		if verifMaxRunning == int(quota) && quota > 1 {
			verifCover("quota-reached")
		}
		verifCover("done")
	})
}
