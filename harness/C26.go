//go:build verif

// C26: requests are dispatched only to the registered method.
//verif:pkg .
//verif:bound loop=64 steps=4000000
//verif:stub (*google.golang.org/grpc.Server).processRPC => verifStubProcessRPC
//verif:stub (*google.golang.org/grpc.Server).handleMalformedMethodName => verifStubMalformed
//verif:stub (*google.golang.org/grpc/internal/transport.ServerStream).WriteStatus => verifStubWriteStatus
//verif:noreplay-stubbed
//verif:outside paths longer than 6 bytes; registries other than the two services below (names with and without an inner '/'); the handler body (processRPC is a recorder)
package grpc

import (
	"context"

	"google.golang.org/grpc/codes"
	"google.golang.org/grpc/internal/transport"
	"google.golang.org/grpc/status"
)

var (
	verifGotInfo      *serviceInfo
	verifGotDesc      *StreamDesc
	verifCalls        int
	verifMalformed    int
	verifStatusCode   codes.Code
	verifStatusWrites int
)

func verifStubProcessRPC(s *Server, ctx context.Context, stream *transport.ServerStream, info *serviceInfo, sd *StreamDesc, trInfo *traceInfo) error {
	verifCalls++
	verifGotInfo, verifGotDesc = info, sd
	return nil
}

func verifStubMalformed(s *Server, stream *transport.ServerStream, ti *traceInfo) { verifMalformed++ }

func verifStubWriteStatus(st *transport.ServerStream, s *status.Status) error {
	verifStatusWrites++
	verifStatusCode = s.Code()
	return nil
}

func verifH_C26_dispatch() {
	verifCalls, verifMalformed, verifStatusWrites = 0, 0, 0
	verifGotInfo, verifGotDesc = nil, nil
	s := &Server{services: map[string]*serviceInfo{}}
	// registry: service "a" with methods "m" (streaming) and "u" (unary); service "a/b" with method "m"
	s.register(&ServiceDesc{ServiceName: "a", Streams: []StreamDesc{{StreamName: "m"}}, Methods: []MethodDesc{{MethodName: "u"}}}, nil)
	s.register(&ServiceDesc{ServiceName: "a/b", Streams: []StreamDesc{{StreamName: "m"}}}, nil)
	unknown := verifBool("unknownHandler")
	if unknown {
		s.opts.unknownStreamDesc = &StreamDesc{StreamName: "unknown"}
	}
	path := verifString("path", 6)
	stream := &transport.ServerStream{}
	verifSetField(stream, "Stream.method", path)
	verifSetField(stream, "Stream.ctx", context.Background())
	s.handleStream(nil, stream)

	// reference: mandatory leading '/', then split at the LAST '/'
	last := -1
	for i := 1; i < len(path); i++ {
		if path[i] == '/' {
			last = i
		}
	}
	wellFormed := len(path) > 0 && path[0] == '/' && last > 0
	verifObserveStr("path", path)
	if !wellFormed {
		verifAssert(verifCalls == 0, "a malformed path never reaches any handler")
		verifAssert(verifMalformed == 1, "a malformed path is reported as malformed")
		verifCover("malformed")
		return
	}
	svc, meth := path[1:last], path[last+1:]
	var wantInfo *serviceInfo
	var wantDesc *StreamDesc
	if info, ok := s.services[svc]; ok {
		if sd, ok := info.streams[meth]; ok {
			wantInfo, wantDesc = info, sd
		}
	}
	verifAssert(verifMalformed == 0, "well-formed path is not reported as malformed")
	switch {
	case wantDesc != nil:
		verifAssert(verifCalls == 1 && verifGotInfo == wantInfo && verifGotDesc == wantDesc, "registered service/method reaches exactly that handler")
		verifAssert(verifStatusWrites == 0, "no status written by the dispatcher")
		if svc == "a/b" {
			verifCover("service-with-slash")
		}
		verifCover("registered")
	case unknown:
		verifAssert(verifCalls == 1 && verifGotInfo == nil && verifGotDesc == s.opts.unknownStreamDesc, "unregistered path goes to the unknown-service handler")
		verifCover("unknown-handler")
	default:
		verifAssert(verifCalls == 0, "unregistered path reaches no handler")
		verifAssert(verifStatusWrites == 1 && verifStatusCode == codes.Unimplemented, "unregistered path yields UNIMPLEMENTED")
		verifCover("unimplemented")
	}
}
