//go:build verif

// C27: compression is negotiated and applied consistently (flag on send, decompressor selection on receive,
// server-side send-compressor validation).
//verif:pkg .
//verif:bound loop=64 steps=6000000 paths=600000
//verif:outside the compression algorithms themselves (gzip is not encodable: stand-in compressors tag their output so that the one applied is observable); the registry as mutated at init time by real codecs; streaming of several messages with changing encodings
package grpc

import (
	"bytes"
	"context"
	"io"
	"math"

	"google.golang.org/grpc/codes"
	"google.golang.org/grpc/encoding"
	"google.golang.org/grpc/internal/transport"
	"google.golang.org/grpc/mem"
	"google.golang.org/grpc/status"
)

// stand-in compressor: "compresses" by prefixing its tag, "decompresses" to a one-byte message holding the tag
type verifCompressor struct {
	name string
	tag  byte
}

type verifTagWriter struct {
	w   io.Writer
	tag byte
}

func (t *verifTagWriter) Write(p []byte) (int, error) {
	t.w.Write([]byte{t.tag})
	t.w.Write(p)
	return len(p), nil
}
func (t *verifTagWriter) Close() error { return nil }

func (c verifCompressor) Compress(w io.Writer) (io.WriteCloser, error) {
	return &verifTagWriter{w, c.tag}, nil
}
func (c verifCompressor) Decompress(r io.Reader) (io.Reader, error) {
	return bytes.NewReader([]byte{c.tag}), nil
}
func (c verifCompressor) Name() string { return c.name }

// legacy Decompressor of type "a"
type verifLegacyA struct{}

func (verifLegacyA) Do(r io.Reader) ([]byte, error) { return []byte{'L'}, nil }
func (verifLegacyA) Type() string                  { return "a" }

type verifCodec struct{ got []byte }

func (c *verifCodec) Marshal(v any) (mem.BufferSlice, error) {
	return mem.BufferSlice{mem.SliceBuffer(v.([]byte))}, nil
}
func (c *verifCodec) Unmarshal(data mem.BufferSlice, v any) error {
	c.got = data.Materialize()
	return nil
}

type verifMsgReader struct {
	flag byte
	body []byte
}

func (r *verifMsgReader) ReadMessageHeader(h []byte) error {
	h[0] = r.flag
	h[1], h[2], h[3], h[4] = 0, 0, 0, byte(len(r.body))
	return nil
}
func (r *verifMsgReader) Read(n int) (mem.BufferSlice, error) {
	return mem.BufferSlice{mem.SliceBuffer(r.body[:n])}, nil
}

func verifRegister() {
	encoding.RegisterCompressor(verifCompressor{"a", 'A'})
	encoding.RegisterCompressor(verifCompressor{"b", 'B'})
}

// client receive path: each message is decoded with the compressor named by grpc-encoding
func verifH_C27_receive() {
	verifRegister()
	ct := [...]string{"", "identity", "a", "b", "zz"}[verifChoice("grpc-encoding", 5)]
	flag := byte(verifChoice("compressed-flag", 2))
	legacy := verifBool("legacy-decompressor-a")
	restrict := verifBool("accept-only-a")
	ts := &transport.ClientStream{}
	verifSetField(ts, "Stream.recvCompress", ct)
	verifSetField(ts, "Stream.ctx", context.Background())
	hc := make(chan struct{})
	close(hc) // response headers were received
	verifSetField(ts, "headerChan", hc)
	codec := &verifCodec{}
	limit := math.MaxInt32
	cs := &clientStream{codec: codec, callInfo: &callInfo{maxReceiveMessageSize: &limit}, desc: &StreamDesc{}}
	if restrict {
		cs.callInfo.acceptedResponseCompressors = []string{"a"}
	}
	a := &csAttempt{cs: cs, transportStream: ts}
	a.parser = parser{r: &verifMsgReader{flag: flag, body: []byte{'r', 'a', 'w'}}, bufferPool: mem.DefaultBufferPool()}
	if legacy {
		a.decompressorV0 = verifLegacyA{}
	}
	var m []byte
	err := a.recvMsg(&m, nil)
	named := ct != "" && ct != "identity"
	switch {
	case named && restrict && ct != "a":
		verifAssert(err != nil && status.Code(err) == codes.Internal, "an encoding outside the accepted list fails the RPC with INTERNAL")
		verifCover("not-accepted")
	case flag == 0:
		verifAssert(err == nil && string(codec.got) == "raw", "an uncompressed message is delivered as is")
		verifCover("uncompressed")
	case !named:
		verifAssert(err != nil && status.Code(err) == codes.Internal, "compressed flag without a named encoding: INTERNAL, never undecoded data")
	case ct == "zz":
		verifAssert(err != nil && status.Code(err) == codes.Internal, "an unsupported encoding fails the RPC with INTERNAL on the client")
		verifCover("unsupported")
	case ct == "a" && legacy:
		verifAssert(err == nil && string(codec.got) == "L", "the matching legacy decompressor is used")
		verifCover("legacy")
	case ct == "a":
		verifAssert(err == nil && string(codec.got) == "A", "decoded with the registered compressor named by grpc-encoding")
	default:
		verifAssert(err == nil && string(codec.got) == "B", "decoded with the registered compressor named by grpc-encoding, not with a mismatching legacy one")
		verifCover("named-b")
	}
}

// send path: the compressed flag is set iff a compressor is configured and the message is not empty
func verifH_C27_send() {
	n := verifChoice("message-length", 3)
	msg := []byte{'x', 'y'}[:n]
	var comp encoding.Compressor
	if verifBool("compressor") {
		comp = verifCompressor{"a", 'A'}
	}
	hdr, data, payload, pf, err := prepareMsg(msg, &verifCodec{}, nil, comp, mem.DefaultBufferPool())
	verifAssert(err == nil && len(hdr) == 5, "message prepared")
	want := comp != nil && n > 0
	verifAssert(pf.isCompressed() == want && (hdr[0] == 1) == want, "the compressed flag is set exactly when a compressor is configured (and the message is not empty)")
	verifAssert(data.Len() == n, "uncompressed data kept for stats")
	if want {
		out := payload.Materialize()
		verifAssert(len(out) == n+1 && out[0] == 'A', "the payload is the configured compressor's output")
		verifAssert(int(hdr[4]) == n+1, "the length prefix is the compressed length")
		verifCover("compressed")
	} else {
		verifAssert(payload.Len() == n && int(hdr[4]) == n, "otherwise the payload is the message itself")
		verifCover("plain")
	}
}

// server: a handler may only pick a compressor that is registered and advertised by the client
func verifH_C27_serverchoice() {
	verifRegister()
	name := [...]string{"identity", "a", "b", "zz"}[verifChoice("name", 4)]
	var adv []string
	if verifBool("client-advertises-a") {
		adv = append(adv, "a")
	}
	if verifBool("client-advertises-b") {
		adv = append(adv, "b")
	}
	if verifBool("client-advertises-zz") {
		adv = append(adv, "zz")
	}
	err := validateSendCompressor(name, adv)
	has := false
	for _, c := range adv {
		if c == name {
			has = true
		}
	}
	ok := name == "identity" || ((name == "a" || name == "b") && has)
	verifAssert((err == nil) == ok, "a response compressor is accepted only if registered and advertised by the client (identity always)")
	if ok {
		verifCover("accepted")
	} else {
		verifCover("refused")
	}
}
