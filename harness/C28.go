//go:build verif

// C28: the metadata API behaves as a case-insensitive ordered multimap; contexts hand out copies.
//verif:pkg metadata
//verif:bound loop=64 steps=4000000
//verif:assume base maps are built through the API (Pairs/New/Set/Append, which lower-case keys); a user-built MD literal holding two keys that differ only in case is outside the documented input domain
//verif:outside more than 2 distinct keys (each in both cases), more than 3 mutating operations after construction, more than 2 AppendToOutgoingContext calls; values are symbolic 1-byte strings
package metadata

import "context"

var verifKeyNames = [...]string{"a", "A", "bc", "Bc"}

func verifLower(k string) string {
	if k == "A" {
		return "a"
	}
	if k == "Bc" {
		return "bc"
	}
	return k
}

type verifModel struct {
	a, bc []string
	hasA, hasBC bool
}

func (m *verifModel) slot(k string) (*[]string, *bool) {
	if verifLower(k) == "a" {
		return &m.a, &m.hasA
	}
	return &m.bc, &m.hasBC
}

func verifSame(got, want []string) bool {
	if len(got) != len(want) {
		return false
	}
	for i := range got {
		if got[i] != want[i] {
			return false
		}
	}
	return true
}

var verifQA, verifQB string

// the case used for lookups is chosen once per run
func verifPickQueryCase() {
	verifQA = verifKeyNames[verifChoice("qa", 2)]
	verifQB = verifKeyNames[2+verifChoice("qb", 2)]
}

func verifCheckMD(md MD, m *verifModel, label string) {
	qa, qb := verifQA, verifQB
	verifAssert(verifSame(md.Get(qa), m.a), label+": Get is case-insensitive and returns the values in order (key a)")
	verifAssert(verifSame(md.Get(qb), m.bc), label+": Get is case-insensitive and returns the values in order (key bc)")
	n := 0
	if m.hasA {
		n++
	}
	if m.hasBC {
		n++
	}
	verifAssert(md.Len() == n, label+": Len counts distinct lower-cased keys")
}

func verifKey() string { return verifKeyNames[verifChoice("key", 4)] }
func verifVal() string { return verifString("val", 1) }

// MD: Pairs, then Set/Append/Delete sequences; Join; Copy
func verifH_C28_md() {
	verifPickQueryCase()
	m := &verifModel{}
	k1, k2 := verifKey(), verifKey()
	v1, v2 := verifVal(), verifVal()
	md := Pairs(k1, v1, k2, v2)
	s, h := m.slot(k1)
	*s, *h = append(*s, v1), true
	s, h = m.slot(k2)
	*s, *h = append(*s, v2), true
	verifCheckMD(md, m, "Pairs")
	nops := verifChoice("nops", 3)
	for i := 0; i < nops; i++ {
		k := verifKey()
		s, h := m.slot(k)
		switch verifChoice("op", 3) {
		case 0:
			v := verifVal()
			md.Set(k, v)
			*s, *h = []string{v}, true
		case 1:
			v := verifVal()
			md.Append(k, v)
			*s, *h = append(append([]string{}, *s...), v), true
		case 2:
			md.Delete(k)
			*s, *h = nil, false
		}
	}
	verifCheckMD(md, m, "after ops")
	// Copy is independent of the original
	c := md.Copy()
	verifAssert(verifSame(c.Get("a"), m.a) && verifSame(c.Get("bc"), m.bc), "Copy has the same content")
	c.Append("a", "zz")
	if len(c["bc"]) > 0 {
		c["bc"][0] = "mutated"
	}
	verifCheckMD(md, m, "after mutating the Copy")
	// Join concatenates in argument order
	other := Pairs("A", "j1", "bc", "j2")
	j := Join(md, other)
	verifAssert(verifSame(j.Get("a"), append(append([]string{}, m.a...), "j1")), "Join: values of the first argument then of the second (key a)")
	verifAssert(verifSame(j.Get("bc"), append(append([]string{}, m.bc...), "j2")), "Join: values of the first argument then of the second (key bc)")
	if nops == 2 {
		verifCover("two-ops")
	}
	verifCover("done")
}

// outgoing context: base values then appended values, keys lower-cased; lookups agree; results are copies
func verifH_C28_outgoing() {
	verifPickQueryCase()
	m := &verifModel{}
	ctx := context.Background()
	hasBase := verifBool("base")
	if hasBase {
		k1 := verifLower(verifKey())
		v1, v2 := verifVal(), verifVal()
		ctx = NewOutgoingContext(ctx, Pairs(k1, v1, k1, v2))
		s, h := m.slot(k1)
		*s, *h = []string{v1, v2}, true
	}
	napp := verifChoice("nappend", 3)
	for i := 0; i < napp; i++ {
		k, v := verifKey(), verifVal()
		ctx = AppendToOutgoingContext(ctx, k, v)
		s, h := m.slot(k)
		*s, *h = append(append([]string{}, *s...), v), true
	}
	out, ok := FromOutgoingContext(ctx)
	if !hasBase && napp == 0 {
		verifAssert(!ok, "no metadata in a fresh context")
		verifCover("empty")
		return
	}
	verifAssert(ok, "metadata present")
	verifCheckMD(out, m, "FromOutgoingContext")
	q := verifKey()
	var want []string
	if verifLower(q) == "a" {
		want = m.a
	} else {
		want = m.bc
	}
	verifAssert(verifSame(ValueFromOutgoingContext(ctx, q), want), "ValueFromOutgoingContext agrees with the full lookup, case-insensitively")
	// the caller may mutate what it got without affecting the context
	for k := range out {
		for i := range out[k] {
			out[k][i] = "mutated"
		}
		out[k] = append(out[k], "more")
	}
	vs := ValueFromOutgoingContext(ctx, "a")
	for i := range vs {
		vs[i] = "mutated2"
	}
	out2, _ := FromOutgoingContext(ctx)
	verifCheckMD(out2, m, "after mutating earlier results")
	verifAssert(verifSame(ValueFromOutgoingContext(ctx, "bc"), m.bc) && verifSame(ValueFromOutgoingContext(ctx, "A"), m.a), "context unaffected by caller mutations")
	if hasBase && napp > 0 {
		verifCover("base-and-appended")
	}
	verifCover("done")
}

// incoming context
func verifH_C28_incoming() {
	verifPickQueryCase()
	m := &verifModel{}
	k1, k2 := verifKey(), verifKey()
	v1, v2 := verifVal(), verifVal()
	md := Pairs(k1, v1, k2, v2)
	s, h := m.slot(k1)
	*s, *h = append(*s, v1), true
	s, h = m.slot(k2)
	*s, *h = append(*s, v2), true
	ctx := NewIncomingContext(context.Background(), md)
	out, ok := FromIncomingContext(ctx)
	verifAssert(ok, "metadata present")
	verifCheckMD(out, m, "FromIncomingContext")
	q := verifKey()
	var want []string
	if verifLower(q) == "a" {
		want = m.a
	} else {
		want = m.bc
	}
	verifAssert(verifSame(ValueFromIncomingContext(ctx, q), want), "ValueFromIncomingContext agrees with the full lookup, case-insensitively")
	for k := range out {
		for i := range out[k] {
			out[k][i] = "mutated"
		}
	}
	vs := ValueFromIncomingContext(ctx, q)
	for i := range vs {
		vs[i] = "mutated2"
	}
	out2, _ := FromIncomingContext(ctx)
	verifCheckMD(out2, m, "after mutating earlier results")
	verifCover("done")
}
