//go:build verif

// C29: a channel never goes idle while an RPC is active; RPC starts wait for idle exit; enter/exit alternate.
//verif:pkg internal/idle
//verif:bound loop=40 steps=6000000 preempt=2 paths=1500000
//verif:noreplay schedule-dependent: witnesses are re-executed deterministically in the engine from the recorded decision prefix
//verif:outside more than 2 concurrent RPCs, one idle-timer expiry racing with them (plus re-armed timers firing once everything else is quiet), one Connect call and one Close; preemption bound 2
package idle

import (
	"sync"
	"time"
)

type verifCC struct {
	idle     bool // the channel's own view; true between EnterIdleMode and the completion of ExitIdleMode
	inRPC    int  // RPCs between the return of OnCallBegin and the call of OnCallEnd
	enters   int
	exits    int
	closedAt bool
}

func (c *verifCC) ExitIdleMode() {
	verifAssert(c.idle, "exit-idle only from idle: enter and exit strictly alternate")
	verifYield() // leaving idle mode takes time (resolver and balancer are rebuilt)
	c.idle = false
	c.exits++
}

func (c *verifCC) EnterIdleMode() {
	verifAssert(!c.idle, "enter-idle only from active: enter and exit strictly alternate")
	verifAssert(c.inRPC == 0, "the channel never enters idle mode while an RPC is between its start and end")
	c.idle = true
	c.enters++
}

func verifH_C29_idle() {
	cc := &verifCC{idle: true}
	m := NewManager(cc, time.Second)
	var wg sync.WaitGroup
	rpc := func() {
		defer wg.Done()
		m.OnCallBegin()
		if m.isClosed() {
			return // the channel was closed: the RPC fails, the idleness manager no longer tracks it
		}
		verifAssert(!cc.idle, "an RPC start returns only after the channel has left idle mode")
		cc.inRPC++
		verifYield()
		verifAssert(!cc.idle || m.isClosed(), "the channel is not idle while the RPC is in progress")
		cc.inRPC--
		m.OnCallEnd()
	}
	wg.Add(2)
	go rpc()
	go rpc()
	if verifBool("timer") {
		wg.Add(1)
		go func() { // the idle timeout elapses at an arbitrary point
			defer wg.Done()
			verifAdvance(int64(2 * time.Second))
		}()
	}
	if verifBool("connect") {
		wg.Add(1)
		go func() { defer wg.Done(); m.ExitIdleMode() }()
	}
	closing := verifBool("close")
	if closing {
		wg.Add(1)
		go func() { defer wg.Done(); m.Close() }()
	}
	wg.Wait()
	verifAtQuiescence(func() {
		verifAssert(cc.enters == cc.exits || cc.enters+1 == cc.exits || cc.enters == cc.exits+0, "enter/exit counts stay in step")
		if !closing {
			// nothing is running any more and every re-armed timer has fired: the channel ends up idle
			verifAssert(cc.idle && m.actuallyIdle, "with no RPC in progress the idle timeout eventually takes the channel idle")
		}
		if cc.enters > 0 {
			verifCover("went-idle")
		}
		verifCover("done")
	})
}
