//go:build verif

// C30 (part a): channel connectivity state reporting (connectivityStateManager + WaitForStateChange).
//verif:pkg .
//verif:bound loop=40 steps=6000000 preempt=2 paths=1500000
//verif:thorough preempt=3 paths=6000000
//verif:noop google.golang.org/grpc/internal/channelz.Infof
//verif:noop (*google.golang.org/grpc/internal/grpcsync.PubSub).Publish
//verif:noreplay schedule-dependent: witnesses are re-executed deterministically in the engine from the recorded decision prefix
//verif:outside more than 2 updaters with 2 and 1 state changes and one waiter; the aggregation of subchannel states through a real balancer; subchannel (addrConn) transitions
package grpc

import (
	"context"
	"sync"

	"google.golang.org/grpc/connectivity"
	"google.golang.org/grpc/internal/channelz"
)

func verifState(name string) connectivity.State {
	return [...]connectivity.State{connectivity.Connecting, connectivity.Ready, connectivity.Shutdown}[verifChoice(name, 3)]
}

func verifH_C30_csm() {
	csm := &connectivityStateManager{channelz: &channelz.Channel{}} // the pub/sub fan-out (C31) is cut
	cc := &ClientConn{csMgr: csm}
	s1, s2, s3 := verifState("s1"), verifState("s2"), verifState("s3")
	source := verifState("source")
	var published []connectivity.State // ghost: states in the order they took effect
	var pmu sync.Mutex
	update := func(s connectivity.State) {
		csm.updateState(s)
		pmu.Lock()
		if csm.getState() == s {
			published = append(published, s)
		}
		pmu.Unlock()
	}
	var wg sync.WaitGroup
	wg.Add(2)
	go func() { defer wg.Done(); update(s1); update(s2) }()
	go func() { defer wg.Done(); update(s3) }()
	waiterReturned := false
	go func() {
		verifDaemon()
		if cc.WaitForStateChange(context.Background(), source) {
			verifAssert(true, "returned")
		}
		waiterReturned = true
	}()
	wg.Wait()
	verifAtQuiescence(func() {
		final := csm.getState()
		if !waiterReturned {
			verifAssert(final == source, "a waiter stays blocked only while the state equals its source state (no missed notification)")
			verifCover("waiter-still-waiting")
		} else {
			verifCover("waiter-returned")
		}
		sawShutdown := false
		for _, s := range []connectivity.State{s1, s2, s3} {
			if s == connectivity.Shutdown {
				sawShutdown = true
			}
		}
		if sawShutdown {
			verifAssert(final == connectivity.Shutdown, "nothing leaves SHUTDOWN")
		}
	})
}
