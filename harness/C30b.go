//go:build verif

// C30 (subchannel half): addrConn takes only allowed transitions and reports them to the LB policy in order, none after shutdown.
//
//verif:pkg .
//verif:bound loop=40 steps=6000000 preempt=0 paths=600000
//verif:stub google.golang.org/grpc/internal/transport.NewHTTP2Client => verifStubNewHTTP2Client
//verif:noop (*google.golang.org/grpc/experimental/stats.Int64CountHandle).Record
//verif:noop (*google.golang.org/grpc/experimental/stats.Int64UpDownCountHandle).Record
//verif:noop google.golang.org/grpc/internal/channelz.Infof
//verif:noop google.golang.org/grpc/internal/channelz.Warningf
//verif:noop google.golang.org/grpc/internal/channelz.AddTraceEvent
//verif:noop google.golang.org/grpc/internal/channelz.RemoveEntry
//verif:noop (*google.golang.org/grpc/grpclog.componentData).V
//verif:noop (*google.golang.org/grpc/grpclog.componentData).Infof
//verif:noreplay stubbed transport constructor, virtual clock and schedule-dependent: witnesses are re-executed deterministically in the engine
//verif:outside the HTTP/2 transport (NewHTTP2Client is a stub that fails or hands back a harness transport and keeps the onClose callback for the harness to invoke); health checking (disabled); address list updates; one subchannel, up to 2 connection attempts, one transport loss, one shutdown at one of 4 moments (sequential semantics) or exactly at the end of the backoff (race entry, preemption bound 1)
package grpc

import (
	"context"
	"errors"
	"time"

	"google.golang.org/grpc/balancer"
	"google.golang.org/grpc/connectivity"
	"google.golang.org/grpc/internal/balancer/gracefulswitch"
	"google.golang.org/grpc/internal/channelz"
	"google.golang.org/grpc/internal/grpcsync"
	"google.golang.org/grpc/internal/transport"
	"google.golang.org/grpc/peer"
	"google.golang.org/grpc/resolver"
)

type verifACTransport struct {
	transport.ClientTransport
	closed int
}

func (t *verifACTransport) Peer() *peer.Peer { return &peer.Peer{} }
func (t *verifACTransport) Close(error)    { t.closed++ }
func (t *verifACTransport) GracefulClose() { t.closed++ }

var (
	verifOnClose  []transport.OnCloseFunc
	verifDialFail []bool
	verifDials    int
)

func verifStubNewHTTP2Client(connectCtx, ctx context.Context, addr resolver.Address, opts transport.ConnectOptions, onClose transport.OnCloseFunc) (transport.ClientTransport, error) {
	i := verifDials
	verifDials++
	if i < len(verifDialFail) && verifDialFail[i] {
		return nil, errors.New("connection refused")
	}
	verifOnClose = append(verifOnClose, onClose)
	return &verifACTransport{}, nil
}

type verifFixedBackoff struct{}

func (verifFixedBackoff) Backoff(int) time.Duration { return time.Second }

var verifThoroughC30, verifRaceC30 = false, false

// thorough only: the LB policy also reconnects once after IDLE
//
//verif:thoroughonly verifH_C30_addrconn_reconnect
func verifH_C30_addrconn_reconnect() {
	verifThoroughC30 = true
	verifH_C30_addrconn()
}

// the shutdown lands exactly when the backoff after a failed attempt ends: every interleaving within preemption bound 1 of the subchannel's goroutine with the shutdown
//
//verif:entry verifH_C30_addrconn_race both preempt=1
func verifH_C30_addrconn_race() {
	verifRaceC30 = true
	verifSimultaneousTimers(true) // the shutdown and the end of the backoff are due at the same instant and wake their goroutines together
	verifH_C30_addrconn()
}

func verifH_C30_addrconn() {
	verifOnClose, verifDials = nil, 0
	verifDialFail = []bool{verifRaceC30 || verifBool("first-dial-fails"), verifThoroughC30 && verifBool("second-dial-fails")}
	ctx, cancel := context.WithCancel(context.Background())
	cc := &ClientConn{ctx: ctx, target: "t", authority: "a"}
	cc.dopts.disableHealthCheck = true
	cc.resolverWrapper = &ccResolverWrapper{serializer: grpcsync.NewCallbackSerializer(ctx)}
	var seen []connectivity.State
	acCtx, acCancel := context.WithCancel(ctx)
	ac := &addrConn{ctx: acCtx, cancel: acCancel, cc: cc, addrs: []resolver.Address{{Addr: "10.0.0.1:80"}}, resetBackoff: make(chan struct{}),
		channelz: &channelz.SubChannel{}, state: connectivity.Idle}
	ac.dopts = cc.dopts
	ac.dopts.bs = verifFixedBackoff{}
	ccb := &ccBalancerWrapper{cc: cc, serializer: grpcsync.NewCallbackSerializer(ctx), balancer: &gracefulswitch.Balancer{}}
	ac.acbw = &acBalancerWrapper{ac: ac, ccb: ccb, stateListener: func(s balancer.SubConnState) { seen = append(seen, s.ConnectivityState) }}

	// the LB policy asks for a connection, possibly again after a failure or a lost transport
	ac.acbw.Connect()
	reconnect := verifThoroughC30 && verifBool("lb-policy-reconnects-when-idle")
	// moments chosen around the interesting instants (the backoff ends 1 s after a failed attempt; the policy reconnects at 1.5 s and 3 s)
	shutdownAt := time.Second
	if !verifRaceC30 {
		shutdownAt = [...]time.Duration{0, 100 * time.Millisecond, time.Second, 2500 * time.Millisecond}[verifChoice("shutdown-after", 4)]
	}
	loseAt := 100 * time.Millisecond
	if !verifDialFail[0] {
		go func() { // the server goes away at some moment
			verifDaemon()
			<-time.After(loseAt)
			if len(verifOnClose) > 0 {
				verifOnClose[len(verifOnClose)-1](transport.GoAwayInfo{Reason: transport.GoAwayInvalid})
			}
		}()
	}
	if reconnect {
		go func() { // a policy that reconnects once, a little after the subchannel went IDLE
			verifDaemon()
			<-time.After(1500 * time.Millisecond)
			ac.mu.Lock()
			idle := ac.state == connectivity.Idle
			ac.mu.Unlock()
			if idle {
				ac.acbw.Connect()
			}
		}()
	}
	go func() { // the subchannel is shut down at an arbitrary moment
		<-time.After(shutdownAt)
		ac.tearDown(errConnDrain)
	}()
	verifAtQuiescence(func() {
		prev := connectivity.Idle
		shut := false
		for _, s := range seen {
			verifAssert(!shut, "no state update reaches the LB policy after the subchannel is shut down")
			switch s {
			case connectivity.Connecting:
				verifAssert(prev == connectivity.Idle, "CONNECTING is entered from IDLE")
			case connectivity.Ready:
				verifAssert(prev == connectivity.Connecting, "a subchannel reaches READY only from CONNECTING")
			case connectivity.TransientFailure:
				verifAssert(prev == connectivity.Connecting, "TRANSIENT_FAILURE follows a failed connection attempt")
			case connectivity.Idle:
				verifAssert(prev != connectivity.Shutdown && prev != connectivity.Idle, "IDLE follows READY, a finished backoff, or an abandoned attempt")
			case connectivity.Shutdown:
				shut = true
			}
			if prev == connectivity.TransientFailure {
				verifAssert(s == connectivity.Idle || s == connectivity.Shutdown, "a subchannel leaves TRANSIENT_FAILURE only to IDLE after backoff or to SHUTDOWN")
			}
			prev = s
		}
		verifAssert(shut && seen[len(seen)-1] == connectivity.Shutdown, "the shutdown is the last state the LB policy sees")
		ac.mu.Lock()
		verifAssert(ac.state == connectivity.Shutdown, "nothing leaves SHUTDOWN")
		ac.mu.Unlock()
		for _, s := range seen {
			if s == connectivity.Ready {
				verifCover("was-ready")
			}
			if s == connectivity.TransientFailure {
				verifCover("was-in-transient-failure")
			}
		}
		cancel()
		verifCover("done")
	})
}
