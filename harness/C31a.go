//go:build verif

// C31 (part a): the unbounded queue delivers every accepted value exactly once, in order, and closes only after that.
//verif:pkg internal/buffer
//verif:bound loop=40 steps=4000000 preempt=2 paths=600000
//verif:noreplay schedule-dependent: witnesses are re-executed deterministically in the engine from the recorded decision prefix
//verif:outside more than 2 producers with 2 and 1 values; more than one consumer; preemption bound 2 (quick) / 3 (thorough)
package buffer

import "sync"

func verifH_C31_unbounded() {
	b := NewUnbounded[int]()
	var wg sync.WaitGroup
	accepted := map[int]bool{}
	var mu sync.Mutex
	closeReturned := false
	put := func(v int) {
		late := closeReturned // Close had already returned when this Put was issued
		err := b.Put(v)
		if late {
			verifAssert(err != nil, "a Put issued after Close returned is refused")
		}
		mu.Lock()
		if err == nil {
			accepted[v] = true
		}
		mu.Unlock()
	}
	wg.Add(3)
	go func() { defer wg.Done(); put(1); put(2) }()
	go func() { defer wg.Done(); put(11) }()
	go func() { defer wg.Done(); b.Close(); closeReturned = true }()
	var got []int
	consumerDone := false
	wg.Add(1)
	go func() {
		defer wg.Done()
		for v := range b.Get() {
			b.Load()
			got = append(got, v)
		}
		consumerDone = true
	}()
	wg.Wait()
	verifAssert(consumerDone, "end-of-stream is signalled after Close")
	seen := map[int]int{}
	for _, v := range got {
		seen[v]++
	}
	for _, v := range []int{1, 2, 11} {
		if accepted[v] {
			verifAssert(seen[v] == 1, "every accepted value is delivered exactly once before end-of-stream")
		} else {
			verifAssert(seen[v] == 0, "a value refused after Close is never delivered")
		}
	}
	i1, i2 := -1, -1
	for i, v := range got {
		if v == 1 {
			i1 = i
		}
		if v == 2 {
			i2 = i
		}
	}
	if i1 >= 0 && i2 >= 0 {
		verifAssert(i1 < i2, "values of one producer are delivered in the order they were put")
	}
	verifAssert(b.Put(99) != nil, "Put after Close reports an error")
	if len(got) == 3 {
		verifCover("all-accepted")
	}
	if len(got) < 3 {
		verifCover("some-refused")
	}
}
