//go:build verif

// C31 (part b): CallbackSerializer and PubSub under all interleavings.
//verif:pkg internal/grpcsync
//verif:bound loop=40 steps=6000000 preempt=2 paths=600000
//verif:entry verifH_C31_serializer quick preempt=1
//verif:entry verifH_C31_serializer thorough preempt=1
//verif:noreplay schedule-dependent: witnesses are re-executed deterministically in the engine from the recorded decision prefix
//verif:outside more than 2 schedulers with 2 and 1 callbacks; more than one subscriber with 2 publishes; preemption bound 2 (quick) / 3 (thorough)
package grpcsync

import (
	"context"
	"sync"
)

func verifH_C31_serializer() {
	ctx, cancel := context.WithCancel(context.Background())
	cs := NewCallbackSerializer(ctx)
	running := 0
	var order []int
	ran := map[int]int{}
	refused := map[int]bool{}
	cb := func(id int) func(context.Context) {
		return func(context.Context) {
			running++
			verifAssert(running == 1, "callbacks never overlap")
			verifYield()
			order = append(order, id)
			ran[id]++
			running--
		}
	}
	var mu sync.Mutex
	sched := func(id int) {
		cs.ScheduleOr(cb(id), func() { mu.Lock(); refused[id] = true; mu.Unlock() })
	}
	var wg sync.WaitGroup
	wg.Add(3)
	go func() { defer wg.Done(); sched(1); sched(2) }()
	go func() { defer wg.Done(); sched(11) }()
	go func() { defer wg.Done(); cancel() }()
	wg.Wait()
	<-cs.Done()
	for _, id := range []int{1, 2, 11} {
		if refused[id] {
			verifAssert(ran[id] == 0, "work refused after shutdown never runs and its submitter is told so")
		} else {
			verifAssert(ran[id] == 1, "everything accepted before shutdown has run exactly once when Done is closed")
		}
	}
	i1, i2 := -1, -1
	for i, v := range order {
		if v == 1 {
			i1 = i
		}
		if v == 2 {
			i2 = i
		}
	}
	if i1 >= 0 && i2 >= 0 {
		verifAssert(i1 < i2, "callbacks run in submission order")
	}
	verifAssert(!(refused[1] && !refused[2]), "once a submission is refused, later ones of the same submitter are refused too")
	late := false
	cs.ScheduleOr(cb(99), func() { late = true })
	verifAssert(late && ran[99] == 0, "work submitted after shutdown is refused")
	if len(order) == 3 {
		verifCover("all-ran")
	}
	if len(order) < 3 {
		verifCover("some-refused")
	}
}

type verifSub struct {
	got       []int
	cancelled bool
}

func (s *verifSub) OnMessage(m any) {
	verifAssert(!s.cancelled, "nothing is delivered after unsubscription returned")
	s.got = append(s.got, m.(int))
}

func verifH_C31_pubsub() {
	ctx, cancel := context.WithCancel(context.Background())
	ps := NewPubSub(ctx)
	sub := &verifSub{}
	var wg sync.WaitGroup
	wg.Add(2)
	go func() { defer wg.Done(); ps.Publish(1); ps.Publish(2) }()
	unsub := verifBool("unsubscribe")
	go func() {
		defer wg.Done()
		c := ps.Subscribe(sub)
		if unsub {
			c()
			ps.mu.Lock() // the flag is read by OnMessage under the same mutex
			sub.cancelled = true
			ps.mu.Unlock()
		}
	}()
	wg.Wait()
	cancel()
	<-ps.Done()
	for i := range sub.got {
		verifAssert(sub.got[i] == 1 || sub.got[i] == 2, "only published values are delivered")
		if i > 0 {
			verifAssert(sub.got[i-1] < sub.got[i], "values are delivered in publish order, none twice")
		}
	}
	if len(sub.got) == 2 {
		verifCover("saw-both")
	}
	if len(sub.got) == 1 && sub.got[0] == 2 {
		verifCover("started-with-latest")
	}
	verifCover("done")
}
