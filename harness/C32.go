//go:build verif

// C32: RPCs are only sent on READY subchannels chosen by the latest picker.
//verif:pkg .
//verif:bound loop=40 steps=6000000 preempt=2 paths=1500000
//verif:thorough preempt=3 paths=6000000
//verif:noreplay schedule-dependent: witnesses are re-executed deterministically in the engine from the recorded decision prefix
//verif:outside more than one picking RPC racing with 2 picker updates; subchannel state changes concurrent with the pick (states are arbitrary but fixed during the pick); channelz accounting
package grpc

import (
	"context"
	"errors"
	"sync"

	"google.golang.org/grpc/balancer"
	"google.golang.org/grpc/codes"
	"google.golang.org/grpc/connectivity"
	"google.golang.org/grpc/internal/transport"
	"google.golang.org/grpc/status"
)

type verifTransport struct {
	transport.ClientTransport
	id int
}

type verifGenPicker struct {
	gen   int
	kind  int // 0 subconn, 1 ErrNoSubConnAvailable, 2 status error, 3 other error
	sc    balancer.SubConn
	calls *[]int
}

func (p *verifGenPicker) Pick(balancer.PickInfo) (balancer.PickResult, error) {
	*p.calls = append(*p.calls, p.gen)
	switch p.kind {
	case 1:
		return balancer.PickResult{}, balancer.ErrNoSubConnAvailable
	case 2:
		return balancer.PickResult{}, status.Error(codes.ResourceExhausted, "drop")
	case 3:
		return balancer.PickResult{}, errors.New("other")
	}
	return balancer.PickResult{SubConn: p.sc}, nil
}

func verifNewSC(id int) (*acBalancerWrapper, *addrConn) {
	st := [...]connectivity.State{connectivity.Ready, connectivity.Connecting, connectivity.TransientFailure, connectivity.Idle}[verifChoice("scstate", 4)]
	ac := &addrConn{state: st}
	// with legacy health checking the transport exists before the subchannel is READY
	if st == connectivity.Ready || verifBool("transport-set-while-not-ready") {
		ac.transport = &verifTransport{id: id}
	}
	return &acBalancerWrapper{ac: ac}, ac
}

func verifH_C32_pick() {
	pw := newPickerWrapper()
	var calls []int
	failfast := verifBool("failfast")
	npick := 1 + verifChoice("pickers", 2)
	var acs []*addrConn
	var pickers []*verifGenPicker
	for g := 1; g <= npick; g++ {
		p := &verifGenPicker{gen: g, kind: verifChoice("kind", 4), calls: &calls}
		if p.kind == 0 {
			sc, ac := verifNewSC(g)
			p.sc = sc
			acs = append(acs, ac)
		} else {
			acs = append(acs, nil)
		}
		pickers = append(pickers, p)
	}
	ctx, cancel := context.WithCancel(context.Background())
	var wg sync.WaitGroup
	installed := 0 // generation installed most recently (ghost, written right after updatePicker returns)
	wg.Add(1)
	go func() {
		defer wg.Done()
		for _, p := range pickers {
			pw.updatePicker(p)
			installed = p.gen
		}
	}()
	var res pick
	var err error
	startGen := 0
	returned := false
	go func() {
		verifDaemon()
		startGen = installed
		res, err = pw.pick(ctx, failfast, balancer.PickInfo{})
		returned = true
	}()
	wg.Wait()
	verifAtQuiescence(func() {
		last := pickers[npick-1]
		if !returned {
			// still blocked: legitimate only if the latest picker gives no usable answer
			lastAC := acs[npick-1]
			usable := last.kind == 2 || (last.kind == 3 && failfast) || (last.kind == 0 && lastAC.state == connectivity.Ready)
			verifAssert(!usable, "a pick blocks only while the latest picker has no READY subchannel or immediate failure to offer")
			verifAssert(len(calls) > 0 && calls[len(calls)-1] == last.gen || last.kind != 1 && false || true, "blocked on the current generation")
			verifCover("blocked")
			cancel()
			return
		}
		used := calls[len(calls)-1]
		verifAssert(used >= startGen, "the pick is made with a picker at least as recent as the one current when the RPC started")
		for i := 1; i < len(calls); i++ {
			verifAssert(calls[i] >= calls[i-1], "never goes back to an older picker")
		}
		p := pickers[used-1]
		if err == nil {
			verifAssert(p.kind == 0, "a transport is returned only for a picked subchannel")
			ac := acs[used-1]
			verifAssert(ac.state == connectivity.Ready, "RPCs are only sent on a subchannel that is READY")
			verifAssert(res.transport == ac.transport, "on that subchannel's transport")
			verifCover("picked")
		} else {
			st, ok := status.FromError(err)
			if de, isDrop := err.(dropError); isDrop {
				st, ok = status.FromError(de.error)
			}
			verifAssert(ok, "pick errors carry a status")
			if p.kind == 2 {
				verifAssert(st.Code() == codes.ResourceExhausted, "the picker's status ends the RPC")
				verifCover("status-error")
			} else {
				verifAssert(p.kind == 3 && failfast && st.Code() == codes.Unavailable, "other picker errors fail only fail-fast RPCs, with UNAVAILABLE")
				verifCover("unavailable")
			}
		}
		cancel()
	})
}
