//go:build verif

// C33: graceful switch between LB policies.
//verif:pkg internal/balancer/gracefulswitch
//verif:bound loop=40 steps=6000000 preempt=1 paths=1500000
//verif:noreplay schedule-dependent (the swap goroutine closing the old policy runs as a real thread); witnesses are re-executed deterministically in the engine
//verif:outside histories longer than 5 (quick) / 6 (thorough) events over at most 3 child policies; events issued from one goroutine at a time (as the channel's serializer does), with the asynchronous close of the replaced policy interleaved freely
package gracefulswitch

import (
	"google.golang.org/grpc/balancer"
	"google.golang.org/grpc/connectivity"
	"google.golang.org/grpc/resolver"
)

type verifSC struct {
	balancer.SubConn
	owner     int
	shutdowns int
}

func (s *verifSC) Shutdown() { s.shutdowns++ }

type verifPicker struct {
	balancer.Picker
	child, seq int
}

type verifParent struct {
	balancer.ClientConn
	last    balancer.State
	updates int
	scs     []*verifSC
	creator int
}

func (p *verifParent) UpdateState(s balancer.State) { p.last = s; p.updates++ }
func (p *verifParent) NewSubConn(a []resolver.Address, o balancer.NewSubConnOptions) (balancer.SubConn, error) {
	sc := &verifSC{owner: p.creator}
	p.scs = append(p.scs, sc)
	return sc, nil
}

type verifChild struct {
	balancer.Balancer
	id     int
	cc     balancer.ClientConn
	closes int
}

func (c *verifChild) Close() { c.closes++ }

type verifBuilder struct {
	name     string
	children *[]*verifChild
}

func (b verifBuilder) Name() string { return b.name }
func (b verifBuilder) Build(cc balancer.ClientConn, _ balancer.BuildOptions) balancer.Balancer {
	c := &verifChild{id: len(*b.children), cc: cc}
	*b.children = append(*b.children, c)
	return c
}

var verifStates = [...]connectivity.State{connectivity.Connecting, connectivity.Ready, connectivity.TransientFailure, connectivity.Idle}

var verifEvents = 5

//verif:thoroughonly verifH_C33_switch6
func verifH_C33_switch6() {
	verifEvents = 6
	verifH_C33_switch()
}

func verifH_C33_switch() {
	parent := &verifParent{}
	gsb := NewBalancer(parent, balancer.BuildOptions{})
	var children []*verifChild
	builders := [...]verifBuilder{{"A", &children}, {"B", &children}}
	// reference model of the statement
	cur, pend := -1, -1
	last := map[int]connectivity.State{}
	lastSeq := map[int]int{}
	closed := map[int]bool{}
	wantChild, wantSeq, wantUpdates := -1, -1, 0
	seq := 0
	swapped := false
	swap := func() {
		wantChild, wantSeq = pend, lastSeq[pend]
		wantUpdates++
		closed[cur] = true
		cur, pend = pend, -1
		swapped = true
	}
	for ev := 0; ev < verifEvents; ev++ {
		switch verifChoice("event", 3) {
		case 0: // the channel switches policy
			if len(children) >= 3 {
				continue
			}
			err := gsb.SwitchTo(builders[verifChoice("builder", 2)])
			verifAssert(err == nil, "switch accepted")
			n := len(children) - 1
			last[n] = connectivity.Connecting
			lastSeq[n] = -1
			if cur < 0 {
				cur = n
			} else {
				if pend >= 0 {
					closed[pend] = true
				}
				pend = n
			}
		case 1: // some child policy (possibly one already replaced) reports a state
			if len(children) == 0 {
				continue
			}
			c := verifChoice("child", len(children))
			s := verifStates[verifChoice("state", 4)]
			seq++
			children[c].cc.UpdateState(balancer.State{ConnectivityState: s, Picker: &verifPicker{child: c, seq: seq}})
			last[c], lastSeq[c] = s, seq
			switch {
			case c == cur:
				if s != connectivity.Ready && pend >= 0 {
					swap()
				} else {
					wantChild, wantSeq = c, seq
					wantUpdates++
				}
			case c == pend:
				if s != connectivity.Connecting || last[cur] != connectivity.Ready {
					swap()
				}
			}
		case 2: // some child policy creates a subchannel
			if len(children) == 0 {
				continue
			}
			c := verifChoice("child", len(children))
			parent.creator = c
			before := len(parent.scs)
			sc, err := children[c].cc.NewSubConn(nil, balancer.NewSubConnOptions{})
			if c == cur || c == pend {
				verifAssert(err == nil && sc != nil, "current and pending policies can create subchannels")
			} else {
				verifAssert(err != nil, "a replaced policy can no longer create subchannels")
				for _, s := range parent.scs[before:] {
					verifAssert(s.shutdowns == 1, "a subchannel created for a replaced policy is shut down at once")
				}
			}
		}
		// what the channel sees
		verifAssert(parent.updates == wantUpdates, "state updates of policies that are neither current nor pending (and of a pending one still connecting behind a READY current) never reach the channel")
		if wantChild >= 0 {
			p, ok := parent.last.Picker.(*verifPicker)
			if wantSeq < 0 { // the policy has not reported yet: its initial CONNECTING state with a queueing picker
				ok = !ok && parent.last.ConnectivityState == connectivity.Connecting
				p = &verifPicker{child: wantChild, seq: wantSeq}
			}
			verifAssert(ok && p.child == wantChild && p.seq == wantSeq, "the channel sees the picker of the policy in charge: swap exactly when the pending one leaves CONNECTING or the current one leaves READY")
		}
	}
	gsb.Close()
	for _, c := range []int{cur, pend} {
		if c >= 0 {
			closed[c] = true
		}
	}
	verifAtQuiescence(func() {
		for i, c := range children {
			if closed[i] {
				verifAssert(c.closes == 1, "every replaced or closed policy is closed exactly once")
			} else {
				verifAssert(c.closes == 0, "a policy in charge is not closed")
			}
		}
		for _, sc := range parent.scs {
			if closed[sc.owner] {
				verifAssert(sc.shutdowns >= 1, "every subchannel of a closed policy is shut down")
			}
		}
		if swapped {
			verifCover("swapped")
		}
		verifCover("done")
	})
}
