//go:build verif

// C34: pick_first.
//verif:pkg balancer/pickfirst
//verif:bound loop=64 steps=8000000 paths=600000
//verif:outside histories longer than 5 (quick) / 6 (thorough) events over the address universe {two IPv4, one IPv6} and four resolver lists; health-listener updates and shuffling (identity shuffle); subchannel state sequences that the channel cannot produce (only IDLE->CONNECTING after a Connect, CONNECTING->READY|TRANSIENT_FAILURE, READY->IDLE, TRANSIENT_FAILURE->IDLE are generated)
package pickfirst

import (
	"errors"
	"time"

	"google.golang.org/grpc/balancer"
	"google.golang.org/grpc/connectivity"
	"google.golang.org/grpc/internal"
	"google.golang.org/grpc/resolver"
)

type verifSC struct {
	balancer.SubConn
	addr      string
	listener  func(balancer.SubConnState)
	raw       connectivity.State
	connects  int
	pending   bool // Connect called while IDLE, CONNECTING not yet reported
	shutdown  bool
}

func (s *verifSC) Connect() {
	s.connects++
	if s.raw == connectivity.Idle {
		s.pending = true
	}
}
func (s *verifSC) Shutdown()                                               { s.shutdown = true }
func (s *verifSC) RegisterHealthListener(func(balancer.SubConnState))      {}
func (s *verifSC) GetOrBuildProducer(balancer.ProducerBuilder) (balancer.Producer, func()) {
	return nil, func() {}
}

type verifCC struct {
	balancer.ClientConn
	scs    []*verifSC
	states []balancer.State
}

func (c *verifCC) NewSubConn(a []resolver.Address, o balancer.NewSubConnOptions) (balancer.SubConn, error) {
	sc := &verifSC{addr: a[0].Addr, listener: o.StateListener, raw: connectivity.Idle}
	c.scs = append(c.scs, sc)
	return sc, nil
}
func (c *verifCC) UpdateState(s balancer.State) { c.states = append(c.states, s) }

type verifTimer struct {
	f       func()
	stopped bool
	fired   bool
}

func (t *verifTimer) Stop() bool { was := !t.stopped && !t.fired; t.stopped = true; return was }

var verifAddrLists = [...][]string{
	{"1.1.1.1:1"},
	{"1.1.1.1:1", "2.2.2.2:1"},
	{"2.2.2.2:1", "[::1]:1", "1.1.1.1:1"},
	{},
}

var verifC34Events = 5

//verif:thoroughonly verifH_C34_machine6
func verifH_C34_machine6() {
	verifC34Events = 6
	verifH_C34_machine()
}

func verifH_C34_machine() {
	var timers []*verifTimer
	saved := internal.TimeAfterFunc
	internal.TimeAfterFunc = func(d time.Duration, f func()) internal.Timer {
		t := &verifTimer{f: f}
		timers = append(timers, t)
		return t
	}
	cc := &verifCC{}
	b := pickfirstBuilder{}.Build(cc, balancer.BuildOptions{})
	checked := 0
	tfReported := false  // TRANSIENT_FAILURE reported and no READY since
	updateAfterTF := false
	sawTF, sawReady := false, false
	for ev := 0; ev < verifC34Events; ev++ {
		event := verifChoice("event", 4)
		switch event {
		case 0: // resolver update
			list := verifAddrLists[verifChoice("addrs", len(verifAddrLists))]
			var addrs []resolver.Address
			for _, a := range list {
				addrs = append(addrs, resolver.Address{Addr: a})
			}
			b.UpdateClientConnState(balancer.ClientConnState{ResolverState: resolver.State{Addresses: addrs}})
			if len(list) == 0 {
				tfReported, updateAfterTF = false, false // an empty update discards all subchannels: a fresh start
			} else if tfReported {
				updateAfterTF = true
			}
		case 1: // a subchannel changes state (only transitions a real subchannel makes)
			if len(cc.scs) == 0 {
				continue
			}
			sc := cc.scs[verifChoice("subconn", len(cc.scs))]
			if sc.shutdown {
				continue
			}
			var next connectivity.State
			switch sc.raw {
			case connectivity.Idle:
				if !sc.pending {
					continue
				}
				next = connectivity.Connecting
				sc.pending = false
			case connectivity.Connecting:
				if verifBool("connected") {
					next = connectivity.Ready
				} else {
					next = connectivity.TransientFailure
				}
			default: // READY or TRANSIENT_FAILURE: back to IDLE
				next = connectivity.Idle
			}
			sc.raw = next
			st := balancer.SubConnState{ConnectivityState: next}
			if next == connectivity.TransientFailure {
				st.ConnectionError = errors.New("connect failed")
			}
			sc.listener(st)
		case 2: // happy-eyeballs timer fires
			var live []*verifTimer
			for _, t := range timers {
				if !t.stopped && !t.fired {
					live = append(live, t)
				}
			}
			if len(live) == 0 {
				continue
			}
			t := live[verifChoice("timer", len(live))]
			t.fired = true
			t.f()
		case 3:
			b.ExitIdle()
		}
		// examine what was reported since the last event
		for ; checked < len(cc.states); checked++ {
			st := cc.states[checked]
			switch st.ConnectivityState {
			case connectivity.Ready:
				res, err := st.Picker.Pick(balancer.PickInfo{})
				verifAssert(err == nil, "READY picker returns a subchannel")
				chosen, _ := res.SubConn.(*verifSC)
				verifAssert(chosen != nil && chosen.raw == connectivity.Ready, "READY is reported only for a subchannel whose latest state is READY")
				for _, o := range cc.scs {
					if o != chosen {
						verifAssert(o.shutdown, "once a subchannel is READY all the others are shut down")
					}
				}
				tfReported, updateAfterTF = false, false
				sawReady = true
			case connectivity.TransientFailure:
				if event != 0 { // reported because the last address of a pass failed (not because of an empty resolver update)
					tfReported = true
				}
				sawTF = true
			case connectivity.Connecting:
				verifAssertKF(!tfReported, "after every address failed TRANSIENT_FAILURE is kept (no CONNECTING) until a subchannel becomes READY",
					"F10-pickfirst-leaves-tf-on-resolver-update", updateAfterTF)
				if st.Picker != nil {
					_, err := st.Picker.Pick(balancer.PickInfo{})
					verifAssert(err == balancer.ErrNoSubConnAvailable, "while connecting, picks are queued")
				}
			}
		}
		// the picker currently installed in the channel: while READY is the latest report, it must keep returning a
		// subchannel that is READY and that the balancer has not shut down
		if n := len(cc.states); n > 0 && cc.states[n-1].ConnectivityState == connectivity.Ready {
			res, err := cc.states[n-1].Picker.Pick(balancer.PickInfo{})
			chosen, _ := res.SubConn.(*verifSC)
			verifAssert(err == nil && chosen != nil && !chosen.shutdown, "the picker in use never returns a subchannel the balancer has shut down")
			verifAssert(chosen == nil || chosen.raw == connectivity.Ready, "the picker in use returns a subchannel whose latest state is READY")
		}
	}
	internal.TimeAfterFunc = saved
	if sawTF {
		verifCover("reported-transient-failure")
	}
	if sawReady {
		verifCover("reported-ready")
	}
	verifCover("done")
}

// address pre-processing: de-duplicate, then interleave by family keeping the order within each family
func verifH_C34_addresses() {
	universe := [...]string{"1.1.1.1:1", "2.2.2.2:1", "[::1]:1", "[::2]:1", "host:1"}
	fam := [...]int{4, 4, 6, 6, 0}
	n := 1 + verifChoice("n", 4)
	var in []resolver.Address
	var idx []int
	for i := 0; i < n; i++ {
		k := verifChoice("addr", len(universe))
		in = append(in, resolver.Address{Addr: universe[k]})
		idx = append(idx, k)
	}
	out := interleaveAddresses(deDupAddresses(in))
	// expected de-duplicated input
	var dedup []int
	seen := map[int]bool{}
	for _, k := range idx {
		if !seen[k] {
			seen[k] = true
			dedup = append(dedup, k)
		}
	}
	verifAssert(len(out) == len(dedup), "output is a permutation of the de-duplicated input (length)")
	pos := map[string]int{}
	for i, a := range out {
		_, dup := pos[a.Addr]
		verifAssert(!dup, "no address appears twice")
		pos[a.Addr] = i
	}
	for i := 0; i < len(dedup); i++ {
		pi, ok := pos[universe[dedup[i]]]
		verifAssert(ok, "every input address is present")
		for j := i + 1; j < len(dedup); j++ {
			if fam[dedup[i]] == fam[dedup[j]] {
				verifAssert(pi < pos[universe[dedup[j]]], "relative order within an address family is preserved")
			}
		}
	}
	if len(out) > 0 {
		verifAssert(out[0].Addr == universe[dedup[0]], "the first address stays first")
	}
	// families alternate while more than one family still has addresses: no two neighbours of the same
	// family unless every later address is of that family too
	for i := 0; i+1 < len(out); i++ {
		fi, fj := -1, -1
		for k, u := range universe {
			if u == out[i].Addr {
				fi = fam[k]
			}
			if u == out[i+1].Addr {
				fj = fam[k]
			}
		}
		if fi == fj {
			for j := i + 1; j < len(out); j++ {
				for k, u := range universe {
					if u == out[j].Addr {
						verifAssert(fam[k] == fi, "families are interleaved while several remain")
					}
				}
			}
		}
	}
	if len(dedup) >= 3 {
		verifCover("three-addresses")
	}
	verifCover("done")
}
