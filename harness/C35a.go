//go:build verif

// C35 (part a): ConnectivityStateEvaluator keeps its counters equal to the multiset of child states
// and reports the aggregate by precedence READY > CONNECTING > IDLE > TRANSIENT_FAILURE.
//verif:pkg balancer
//verif:bound loop=16 steps=2000000
//verif:assume inductive step: the counters equal the multiset of child states before the transition (established by the zero value and preserved by every RecordTransition, which is what this harness shows); fewer than 2^64 children
package balancer

import "google.golang.org/grpc/connectivity"

func verifAgg(r, c, i, t uint64) connectivity.State {
	if r > 0 {
		return connectivity.Ready
	}
	if c > 0 {
		return connectivity.Connecting
	}
	if i > 0 {
		return connectivity.Idle
	}
	return connectivity.TransientFailure
}

func verifH_C35_evaluator() {
	// arbitrary multiset of child states (ghost) and an evaluator in sync with it
	r, c, i, t := verifUint64("ready"), verifUint64("connecting"), verifUint64("idle"), verifUint64("tf")
	cse := &ConnectivityStateEvaluator{numReady: r, numConnecting: c, numIdle: i, numTransientFailure: t}
	verifAssert(cse.CurrentState() == verifAgg(r, c, i, t), "CurrentState follows the precedence for any multiset")
	oldS := connectivity.State(verifChoice("old", 5))
	newS := connectivity.State(verifChoice("new", 5))
	// the child leaving oldS must exist in the multiset; counts stay below 2^64
	switch oldS {
	case connectivity.Ready:
		verifAssume(r > 0)
		r--
	case connectivity.Connecting:
		verifAssume(c > 0)
		c--
	case connectivity.Idle:
		verifAssume(i > 0)
		i--
	case connectivity.TransientFailure:
		verifAssume(t > 0)
		t--
	}
	switch newS {
	case connectivity.Ready:
		verifAssume(r < 1<<64-1)
		r++
	case connectivity.Connecting:
		verifAssume(c < 1<<64-1)
		c++
	case connectivity.Idle:
		verifAssume(i < 1<<64-1)
		i++
	case connectivity.TransientFailure:
		verifAssume(t < 1<<64-1)
		t++
	}
	got := cse.RecordTransition(oldS, newS)
	verifAssert(cse.numReady == r && cse.numConnecting == c && cse.numIdle == i && cse.numTransientFailure == t,
		"counters equal the multiset of child states after the transition")
	verifAssert(got == verifAgg(r, c, i, t), "aggregate state follows READY > CONNECTING > IDLE > TRANSIENT_FAILURE")
	if r == 0 && c == 0 && i == 0 && t == 0 {
		verifAssert(got == connectivity.TransientFailure, "no children: TRANSIENT_FAILURE")
		verifCover("empty")
	}
	if got == connectivity.Idle {
		verifCover("idle")
	}
	verifCover("step")
}
