//go:build verif

// C35 (part b): endpoint-sharding aggregation and round robin over children in the aggregate state.
//verif:pkg balancer/endpointsharding
//verif:bound loop=40 steps=4000000
//verif:outside more than 3 children in the aggregation harness; more than 4 pickers / 9 consecutive picks in the round-robin harness
package endpointsharding

import (
	"google.golang.org/grpc/balancer"
	"google.golang.org/grpc/connectivity"
	"google.golang.org/grpc/resolver"
)

type verifCC struct {
	balancer.ClientConn
	states []balancer.State
}

func (c *verifCC) UpdateState(s balancer.State) { c.states = append(c.states, s) }

type verifPicker struct {
	id    int
	count *[4]int
}

func (p *verifPicker) Pick(balancer.PickInfo) (balancer.PickResult, error) {
	p.count[p.id]++
	return balancer.PickResult{}, nil
}

var verifAddrs = [...]string{"a:1", "b:2", "c:3"}

// updateStateLocked: reported state by precedence; the picker delegates only to children in that state,
// and spreads k picks evenly over them (next starts at the value randIntN returned).
func verifH_C35_aggregate() {
	n := verifChoice("n", 4) // 0..3 children
	cc := &verifCC{}
	es := &endpointSharding{cc: cc, endpoints: resolver.NewEndpointMap[*endpointState]()}
	var counts [4]int
	st := make([]connectivity.State, n)
	num := [4]int{}
	for i := 0; i < n; i++ {
		st[i] = connectivity.State(verifChoice("state", 4)) // Idle, Connecting, Ready, TransientFailure
		num[st[i]]++
		ep := resolver.Endpoint{Addresses: []resolver.Address{{Addr: verifAddrs[i]}}}
		es.endpoints.Set(ep, &endpointState{parent: es, endpoint: ep,
			state: balancer.State{ConnectivityState: st[i], Picker: &verifPicker{id: i, count: &counts}}})
	}
	saved := randIntN
	randIntN = func(m int) int {
		v := verifInt("rand")
		verifAssume(v >= 0 && v < m)
		return v
	}
	es.updateStateLocked()
	randIntN = saved
	verifAssert(len(cc.states) == 1, "exactly one state pushed to the parent")
	got := cc.states[0]
	want := connectivity.TransientFailure
	switch {
	case num[connectivity.Ready] > 0:
		want = connectivity.Ready
	case num[connectivity.Connecting] > 0:
		want = connectivity.Connecting
	case num[connectivity.Idle] > 0:
		want = connectivity.Idle
	}
	verifAssert(got.ConnectivityState == want, "aggregate state by precedence READY > CONNECTING > IDLE > TRANSIENT_FAILURE")
	if n == 0 {
		_, err := got.Picker.Pick(balancer.PickInfo{})
		verifAssert(err != nil, "no children: picker fails RPCs")
		verifCover("no-children")
		return
	}
	m := num[want]
	k := 1 + verifChoice("k", 7)
	for j := 0; j < k; j++ {
		got.Picker.Pick(balancer.PickInfo{})
	}
	for i := 0; i < n; i++ {
		if st[i] != want {
			verifAssert(counts[i] == 0, "children outside the aggregate state are never delegated to")
		} else {
			verifAssert(counts[i] == k/m || counts[i] == (k+m-1)/m, "each child in the aggregate state gets floor(k/n) or ceil(k/n) picks")
		}
	}
	if want == connectivity.Idle {
		verifCover("idle")
	}
	if m > 1 {
		verifCover("several")
	}
	verifCover("done")
}

// round robin for an arbitrary value of the shared counter (the state reached after any number of picks).
func verifH_C35_roundrobin() {
	n := 1 + verifChoice("n", 4)
	var counts [4]int
	p := &pickerWithChildStates{next: verifUint32("next")}
	for i := 0; i < n; i++ {
		p.pickers = append(p.pickers, &verifPicker{id: i, count: &counts})
	}
	start := p.next
	k := 1 + verifChoice("k", 9)
	for j := 0; j < k; j++ {
		p.Pick(balancer.PickInfo{})
	}
	wraps := uint64(start)+uint64(k) >= 1<<32
	for i := 0; i < n; i++ {
		verifAssertKF(counts[i] == k/n || counts[i] == (k+n-1)/n, "k consecutive picks over n children give each floor(k/n) or ceil(k/n)",
			"F2-rr-uint32-wrap", wraps && n == 3)
	}
	if wraps {
		verifCover("wraps")
	} else {
		verifCover("plain")
	}
}
