//go:build verif

// C36 (in part): WRR scheduler termination bound, fallback/scaling rules, and the endpoint-weight usability rules.
//
//verif:pkg balancer/weightedroundrobin
//verif:bound loop=64 steps=6000000 paths=600000
//verif:noop (*google.golang.org/grpc/experimental/stats.Int64CountHandle).Record
//verif:noop (*google.golang.org/grpc/experimental/stats.Float64HistoHandle).Record
//verif:noop (*google.golang.org/grpc/internal/grpclog.PrefixLogger).V
//verif:noop (*google.golang.org/grpc/internal/grpclog.PrefixLogger).Infof
//verif:noop (*google.golang.org/grpc/grpclog.componentData).Infof
//verif:lazyfp
//verif:noreplay-stubbed
//verif:outside NOT decided: proportionality of picks over a window of 65535 x n sequence numbers (an unbounded-loop statement) and the numeric value of scaled weights for arbitrary float weights (fp.mul/fp.div chains; weights in the scaling entry are 6 concrete vectors). Decided: nextIndex's termination bound for n = 2..3 arbitrary uint16 weights with a full-weight entry and an arbitrary 32-bit sequence counter; the weight() usability rules for arbitrary times and periods; OnLoadReport's empty-report rule and bookkeeping
package weightedroundrobin

import (
	"time"

	v3orcapb "github.com/cncf/xds/go/xds/data/orca/v3"
	estats "google.golang.org/grpc/experimental/stats"
	iserviceconfig "google.golang.org/grpc/internal/serviceconfig"
)

// edfScheduler.nextIndex: with the weights newScheduler produces (the largest weight is scaled to 65535) every call
// returns after at most n sequence numbers, whatever the counter value
func verifH_C36_edf() {
	n := 2 + verifChoice("endpoints", 2)
	ws := make([]uint16, n)
	hasMax := false
	for i := range ws {
		ws[i] = uint16(verifUint32("weight"))
		if ws[i] == maxWeight {
			hasMax = true
		}
	}
	verifAssume(hasMax) // newScheduler scales the largest weight to maxWeight
	seq := verifUint32("sequence-counter")
	start := seq
	calls := 0
	s := &edfScheduler{weights: ws, inc: func() uint32 { seq++; calls++; return seq }}
	idx := s.nextIndex()
	verifAssert(idx >= 0 && idx < n, "the scheduler returns a valid endpoint index")
	wraps := start > seq || uint64(start)+uint64(n) > 0xFFFFFFFF
	verifAssertKF(calls <= n, "each pick terminates after at most n sequence numbers", "F13-edf-extra-step-at-uint32-wrap", wraps && calls <= 2*n)
	// the returned endpoint is the first one in sequence whose deadline has come
	last := uint64(seq)
	bi := last % uint64(n)
	gen := last / uint64(n)
	w := uint64(ws[bi])
	verifAssert(int(bi) == idx && (w*gen+bi*(maxWeight/2))%maxWeight >= maxWeight-w, "the endpoint returned is the one whose turn it is under the EDF rule")
	if calls == n {
		verifCover("n-steps")
	}
	if calls == 1 {
		verifCover("one-step")
	}
}

// OnLoadReport: empty reports are ignored; otherwise weight = qps / (utilization + eps/qps x penalty)
func verifH_C36_report() {
	w := &endpointWeight{weightVal: 7, cfg: &lbConfig{ErrorUtilizationPenalty: 1.5}}
	if verifBool("had-report") {
		w.lastUpdated = time.Unix(1600000000, 0)
		w.nonEmptySince = time.Unix(1500000000, 0)
	}
	before := *w
	appUtil := [...]float64{0, 0.5}[verifChoice("application-utilization", 2)]
	cpu := [...]float64{0, 0.25}[verifChoice("cpu-utilization", 2)]
	qps := [...]float64{0, 100}[verifChoice("qps", 2)]
	eps := [...]float64{0, 10}[verifChoice("eps", 2)]
	w.OnLoadReport(&v3orcapb.OrcaLoadReport{ApplicationUtilization: appUtil, CpuUtilization: cpu, RpsFractional: qps, Eps: eps})
	util := appUtil
	if util == 0 {
		util = cpu
	}
	if util == 0 || qps == 0 {
		verifAssert(w.weightVal == before.weightVal && w.lastUpdated.Equal(before.lastUpdated) && w.nonEmptySince.Equal(before.nonEmptySince), "a load report without utilization or qps is ignored")
		verifCover("ignored")
		return
	}
	verifAssert(w.weightVal == qps/(util+eps/qps*1.5), "weight is qps / (utilization + eps/qps x penalty), application utilization taking precedence over cpu utilization")
	verifAssert(!w.lastUpdated.IsZero() && !w.lastUpdated.Equal(before.lastUpdated), "the report time is recorded")
	if before.nonEmptySince.IsZero() {
		verifAssert(w.nonEmptySince.Equal(w.lastUpdated), "the first non-empty report starts the blackout period")
	} else {
		verifAssert(w.nonEmptySince.Equal(before.nonEmptySince), "later reports do not restart the blackout period")
	}
	verifCover("applied")
}

// a recorder that drops everything (natively the metric handles call into it)
type verifNoRec struct{ estats.MetricsRecorder }

func (verifNoRec) RecordInt64Count(*estats.Int64CountHandle, int64, ...string)       {}
func (verifNoRec) RecordFloat64Histo(*estats.Float64HistoHandle, float64, ...string) {}

type verifWeights struct {
	in   []float64
	rr   bool
	want []uint16
}

var verifWeightVectors = [...]verifWeights{
	{[]float64{5}, true, nil},
	{[]float64{0, 0, 5}, true, nil}, // fewer than two usable weights
	{[]float64{0, 0}, true, nil},
	{[]float64{3, 3, 3}, true, nil},                            // all equal
	{[]float64{0, 4, 4}, true, nil},                            // the endpoint without weight gets the mean: all equal
	{[]float64{1, 2}, false, []uint16{32768, 65535}},           // scaled so that the largest is 65535
	{[]float64{0, 2, 4}, false, []uint16{49151, 32768, 65535}}, // no weight: mean of the others
}

func verifH_C36_scaling() {
	v := verifWeightVectors[verifChoice("weights", len(verifWeightVectors))]
	now := time.Now()
	p := &picker{cfg: &lbConfig{WeightExpirationPeriod: iserviceconfig.Duration(time.Hour)}}
	for _, x := range v.in {
		ew := &endpointWeight{weightVal: x, metricsRecorder: verifNoRec{}}
		if x != 0 {
			ew.lastUpdated, ew.nonEmptySince = now, now
		}
		p.weightedPickers = append(p.weightedPickers, pickerWeightedEndpoint{weightedEndpoint: ew})
	}
	s := p.newScheduler(false)
	switch sc := s.(type) {
	case *rrScheduler:
		verifAssert(v.rr && int(sc.numSCs) == len(v.in), "plain round robin is used when fewer than two weights are non-zero or all are equal")
		verifCover("round-robin")
	case *edfScheduler:
		verifAssert(!v.rr && len(sc.weights) == len(v.want), "the EDF scheduler is used otherwise")
		for i := range v.want {
			verifAssert(sc.weights[i] == v.want[i], "weights are scaled so that the largest is 65535; endpoints without a usable weight get the mean of the others")
		}
		verifCover("edf")
	default:
		verifAssert(false, "a scheduler is always produced for a non-empty picker")
	}
}
