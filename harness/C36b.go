//go:build verif

// C36 (in part): endpoint-weight usability rules under the virtual clock.
//
//verif:pkg balancer/weightedroundrobin
//verif:bound loop=64 steps=6000000 paths=600000
//verif:noop (*google.golang.org/grpc/experimental/stats.Int64CountHandle).Record
//verif:noop (*google.golang.org/grpc/experimental/stats.Float64HistoHandle).Record
//verif:noreplay virtual clock (times are symbolic monotonic readings) and metrics recording replaced by a no-op: witnesses are re-executed deterministically in the engine
//verif:outside times that are not monotonic clock readings in the order first report <= latest report <= scheduler update (what the balancer produces); periods above 1000 h
package weightedroundrobin

import "time"

// the clock moves by an arbitrary amount (monotonic readings, as the balancer's time.Now() gives)
func verifLater(name string) time.Time {
	d := verifInt64(name)
	verifAssume(d >= 0 && d <= int64(1000*time.Hour))
	verifAdvance(d)
	return time.Now()
}

// endpointWeight.weight: 0 before the first report, after the expiration period and during the blackout period
func verifH_C36_usable() {
	w := &endpointWeight{weightVal: 42.5}
	reported := verifBool("has-report")
	first := verifLater("first-non-empty-report-at")
	latest := verifLater("latest-report-after")
	now := verifLater("scheduler-update-after")
	if reported {
		w.lastUpdated = latest
		if verifBool("nonEmptySince-set") {
			w.nonEmptySince = first
		}
	}
	exp := time.Duration(verifInt64("weightExpirationPeriod"))
	black := time.Duration(verifInt64("blackoutPeriod"))
	verifAssume(exp >= 0 && exp <= 1000*time.Hour && black >= 0 && black <= 1000*time.Hour)
	hadNES := !w.nonEmptySince.IsZero()
	nes := w.nonEmptySince
	got := w.weight(now, exp, black, false)
	switch {
	case !reported:
		verifAssert(got == 0, "weight is 0 before the first load report")
		verifCover("no-report")
	case now.Sub(w.lastUpdated) >= exp:
		verifAssert(got == 0, "weight is 0 after the expiration period")
		verifAssert(w.nonEmptySince.IsZero(), "expiry restarts the blackout period")
		verifCover("expired")
	case black != 0 && (!hadNES || now.Sub(nes) < black):
		verifAssert(got == 0, "weight is 0 during the blackout period")
		verifCover("blackout")
	default:
		verifAssert(got == 42.5, "otherwise the weight from the latest load report is used")
		verifCover("usable")
	}
}

