//go:build verif

// C37: ring hash builds bounded deterministic rings and walks them per A61.
//verif:pkg balancer/ringhash
//verif:bound loop=200 steps=8000000 paths=600000
//verif:stub sort.Slice => verifSortSlice
//verif:stub github.com/cespare/xxhash/v2.Sum64String => verifHash
//verif:noop (*google.golang.org/grpc/internal/grpclog.PrefixLogger).V
//verif:noop (*google.golang.org/grpc/internal/grpclog.PrefixLogger).Infof
//verif:noreplay-stubbed
//verif:outside endpoint sets, weights and ring-size limits other than the 7 listed configurations (weights are concrete so that the floating-point scale computation is evaluated exactly; the request hash and the endpoint connectivity states are symbolic / chosen per path); the xxhash function (assembly; replaced by FNV-1a, any hash function gives the same properties); sort.Slice (reflection-based swapper; replaced by an insertion sort using the caller's less); the balancer around the picker (UpdateClientConnState, child policies)
package ringhash

import (
	"context"
	"math"

	"google.golang.org/grpc/balancer"
	"google.golang.org/grpc/connectivity"
	iringhash "google.golang.org/grpc/internal/ringhash"
	"google.golang.org/grpc/resolver"
)

func verifSortSlice(x any, less func(i, j int) bool) {
	switch s := x.(type) {
	case []*ringEntry:
		for i := 1; i < len(s); i++ {
			for j := i; j > 0 && less(j, j-1); j-- {
				s[j], s[j-1] = s[j-1], s[j]
			}
		}
	case []endpointInfo:
		for i := 1; i < len(s); i++ {
			for j := i; j > 0 && less(j, j-1); j-- {
				s[j], s[j-1] = s[j-1], s[j]
			}
		}
	case []*endpointState:
		for i := 1; i < len(s); i++ {
			for j := i; j > 0 && less(j, j-1); j-- {
				s[j], s[j-1] = s[j-1], s[j]
			}
		}
	default:
		panic("verifSortSlice: unexpected slice type")
	}
}

func verifHash(s string) uint64 {
	h := uint64(14695981039346656037)
	for i := 0; i < len(s); i++ {
		h ^= uint64(s[i])
		h *= 1099511628211
	}
	return h
}

type verifRingCfg struct {
	weights  []uint32
	min, max uint64
}

var verifRingCfgs = [...]verifRingCfg{
	{[]uint32{1}, 1, 8},
	{[]uint32{1, 1}, 4, 8},
	{[]uint32{1, 2, 3}, 1, 10},
	{[]uint32{2, 190}, 3, 11},
	{[]uint32{1, 1, 1}, 2, 2},
	{[]uint32{3, 1}, 16, 4096},
	{[]uint32{1, 1, 1}, 10, 20},
}

var verifKeys = [...]string{"10.0.0.1:80", "10.0.0.2:80", "10.0.0.3:80"}

func verifEndpointMap(c verifRingCfg, reverse bool) *resolver.EndpointMap[*endpointState] {
	m := resolver.NewEndpointMap[*endpointState]()
	n := len(c.weights)
	for k := 0; k < n; k++ {
		i := k
		if reverse {
			i = n - 1 - k
		}
		m.Set(resolver.Endpoint{Addresses: []resolver.Address{{Addr: verifKeys[i]}}}, &endpointState{hashKey: verifKeys[i], weight: c.weights[i]})
	}
	return m
}

func verifH_C37_ring() {
	c := verifRingCfgs[verifChoice("configuration", len(verifRingCfgs))]
	r := newRing(verifEndpointMap(c, false), c.min, c.max, nil)
	r2 := newRing(verifEndpointMap(c, true), c.min, c.max, nil)
	n := len(r.items)
	verifAssert(len(r2.items) == n, "the ring depends only on the endpoint set, not on the order of the update (size)")
	for i := 0; i < n; i++ {
		verifAssert(r.items[i].hash == r2.items[i].hash && r.items[i].hashKey == r2.items[i].hashKey, "the ring depends only on the endpoint set, not on the order of the update (entries)")
		verifAssert(r.items[i].idx == i, "entries know their position")
		if i > 0 {
			verifAssert(r.items[i-1].hash <= r.items[i].hash, "the ring is sorted by hash")
		}
	}
	// reference scale, as A42/A61 define it
	var sum float64
	for _, w := range c.weights {
		sum += float64(w)
	}
	minW := 1.0
	for _, w := range c.weights {
		minW = math.Min(minW, float64(w)/sum)
	}
	scale := math.Min(math.Ceil(minW*float64(c.min))/minW, float64(c.max))
	verifAssert(n >= 1, "a ring is never empty")
	verifAssertKF(uint64(n) <= c.max, "the ring has at most max_ring_size entries", "F3-ring-exceeds-max-by-rounding", uint64(n) == c.max+1)
	if uint64(len(c.weights)) <= c.max {
		verifAssert(uint64(n) >= c.min, "the ring has at least min_ring_size entries when the endpoint count permits")
	}
	for i, w := range c.weights {
		cnt := 0
		for _, e := range r.items {
			if e.hashKey == verifKeys[i] {
				cnt++
				verifAssert(e.weight == w, "entries carry their endpoint's weight")
			}
		}
		want := scale * float64(w) / sum
		verifAssert(float64(cnt) > want-1.0000001 && float64(cnt) < want+1.0000001, "every endpoint gets a number of entries proportional to its normalized weight, up to rounding")
	}
	verifObserveInt("ring-size", int64(n))
	verifCover("built")
}

type verifChildBalancer struct{ balancer.Balancer }

func (verifChildBalancer) UpdateClientConnState(balancer.ClientConnState) error { return nil }

type verifRingCC struct {
	balancer.ClientConn
	last balancer.State
}

func (c *verifRingCC) UpdateState(s balancer.State) { c.last = s }

var verifSizeCfgs = [...][2]uint64{{1, 10}, {8, 10}, {1, 2}, {4, 4}}

// the ring held by the balancer (and its picker) always corresponds to the current configuration
func verifH_C37_config() {
	c := verifRingCfg{weights: []uint32{1, 1, 1}}
	cc := &verifRingCC{}
	b := &ringhashBalancer{ClientConn: cc, child: verifChildBalancer{}, endpointStates: verifEndpointMap(c, false)}
	for _, es := range b.endpointStates.Values() {
		es.state = balancer.State{ConnectivityState: connectivity.Idle}
		es.exitIdle = func() {}
	}
	for step := 0; step < 2; step++ {
		sz := verifSizeCfgs[verifChoice("ring-size-config", len(verifSizeCfgs))]
		err := b.UpdateClientConnState(balancer.ClientConnState{BalancerConfig: &iringhash.LBConfig{MinRingSize: sz[0], MaxRingSize: sz[1]}})
		verifAssert(err == nil, "the configuration is accepted")
		want := newRing(b.endpointStates, sz[0], sz[1], nil)
		p, ok := cc.last.Picker.(*picker)
		verifAssert(ok && p.ring == b.ring, "the picker published after the update uses the balancer's ring")
		verifAssert(len(b.ring.items) == len(want.items), "the ring in use is the ring of the current endpoint set and configuration, whatever the history of updates")
		n := uint64(len(b.ring.items))
		verifAssert(n <= sz[1] && (n >= sz[0] || sz[1] < 3), "the ring in use respects the current min_ring_size and max_ring_size")
	}
	verifCover("two-updates")
}

func verifH_C37_pick() {
	c := verifRingCfgs[1+verifChoice("configuration", 3)]
	r := newRing(verifEndpointMap(c, false), c.min, c.max, nil)
	h := verifUint64("request-hash")
	e := r.pick(h)
	want := r.items[0]
	wrapped := true
	for _, it := range r.items {
		if it.hash >= h {
			want = it
			wrapped = false
			break
		}
	}
	verifAssert(e == want, "pick returns the first ring entry clockwise whose hash is at least the request hash, wrapping to the first entry")
	verifAssert(r.next(e) == r.items[(e.idx+1)%len(r.items)], "next moves one entry clockwise")
	if wrapped {
		verifCover("wrapped")
	} else {
		verifCover("found")
	}
}

type verifChildPicker struct {
	key  string
	used *[]string
}

func (p *verifChildPicker) Pick(balancer.PickInfo) (balancer.PickResult, error) {
	*p.used = append(*p.used, p.key)
	return balancer.PickResult{}, nil
}

var verifStates = [...]connectivity.State{connectivity.Ready, connectivity.Idle, connectivity.Connecting, connectivity.TransientFailure}

func verifH_C37_walk() {
	c := verifRingCfgs[2] // three endpoints, six entries
	r := newRing(verifEndpointMap(c, false), c.min, c.max, nil)
	var used []string
	exitIdleCalls := map[string]int{}
	states := map[string]endpointState{}
	anyConnecting := false
	for _, k := range verifKeys {
		k := k
		st := verifStates[verifChoice("endpoint-state", 4)]
		if st == connectivity.Connecting {
			anyConnecting = true
		}
		states[k] = endpointState{hashKey: k, exitIdle: func() { exitIdleCalls[k]++ },
			state: balancer.State{ConnectivityState: st, Picker: &verifChildPicker{key: k, used: &used}}}
	}
	random := verifBool("random-hash")
	h := verifUint64("request-hash")
	p := &picker{ring: r, endpointStates: states, hasEndpointInConnectingState: anyConnecting, randUint64: func() uint64 { return h }}
	ctx := context.Background()
	if random {
		p.requestHashHeader = "x-hash" // header configured but absent from the RPC: a random hash is used
	} else {
		ctx = iringhash.SetXDSRequestHash(ctx, h)
	}
	_, err := p.Pick(balancer.PickInfo{Ctx: ctx})
	// reference walk
	start := 0
	for i, it := range r.items {
		if it.hash >= h {
			start = i
			break
		}
	}
	n := len(r.items)
	totalExit := 0
	for _, v := range exitIdleCalls {
		totalExit += v
	}
	if !random {
		want := r.items[start].hashKey // all in TRANSIENT_FAILURE: the first entry's picker reports the failure
		for i := 0; i < n; i++ {
			k := r.items[(start+i)%n].hashKey
			if states[k].state.ConnectivityState != connectivity.TransientFailure {
				want = k
				break
			}
		}
		verifAssert(err == nil && len(used) == 1 && used[0] == want, "a pick with a request hash uses the first entry clockwise that is not in TRANSIENT_FAILURE")
		verifAssert(totalExit == 0, "a pick with a request hash does not trigger connections itself")
		verifCover("hashed")
		return
	}
	firstReady := ""
	for i := 0; i < n; i++ {
		k := r.items[(start+i)%n].hashKey
		if states[k].state.ConnectivityState == connectivity.Ready {
			firstReady = k
			break
		}
	}
	verifAssert(totalExit <= 1, "a pick with a random hash triggers at most one connection attempt")
	if firstReady != "" {
		verifAssert(err == nil && len(used) == 1 && used[0] == firstReady, "a pick with a random hash returns the first READY endpoint clockwise")
		verifCover("random-ready")
	} else if anyConnecting {
		verifAssert(err == balancer.ErrNoSubConnAvailable && totalExit == 0 && len(used) == 0, "with an endpoint already connecting the pick is queued and no further connection is started")
		verifCover("random-queued")
	} else if totalExit == 1 {
		verifAssert(err == balancer.ErrNoSubConnAvailable && len(used) == 0, "after starting a connection the pick is queued")
		verifCover("random-started-connection")
	} else {
		verifAssert(len(used) == 1 && used[0] == r.items[start].hashKey, "all endpoints in TRANSIENT_FAILURE: the first entry's picker reports the failure")
		verifCover("random-all-failed")
	}
}
