//go:build verif

// C38 (part a): weighted random choice and EDF selection in internal/wrr.
//verif:pkg internal/wrr
//verif:bound loop=40 steps=2000000
//verif:assume weights are non-negative and each at most 2^32 (callers pass uint32 weights), so accumulated weights cannot overflow int64
//verif:outside more than 4 items in the random selector; EDF selector beyond 3 items with weights 1..3 and beyond one full period of picks
package wrr

// random selector: for every weight list and every value r of the random source, Next returns the
// item whose accumulated-weight interval contains r, so item i is chosen by exactly w_i of the
// sum(w) equally likely draws; with all-equal weights the draw is a uniform index.
func verifH_C38_random() {
	n := 1 + verifChoice("n", 4)
	w := make([]int64, n)
	rw := &randomWRR{}
	allEq := true
	var sum int64
	for i := 0; i < n; i++ {
		w[i] = verifInt64("w")
		verifAssume(w[i] >= 0 && w[i] <= 1<<32)
		if i > 0 && w[i] != w[0] {
			allEq = false
		}
		sum += w[i]
		rw.Add(i, w[i])
	}
	verifAssume(allEq || sum > 0)
	var draw, bound int64
	saved := randInt64n
	randInt64n = func(m int64) int64 {
		bound = m
		draw = verifInt64("draw")
		verifAssume(draw >= 0 && draw < m)
		return draw
	}
	got := rw.Next().(int)
	randInt64n = saved
	verifAssert(got >= 0 && got < n, "returns one of the added items")
	if allEq {
		verifAssert(bound == int64(n) && int64(got) == draw, "equal weights: uniform index")
		verifCover("equal-weights")
		return
	}
	verifAssert(bound == sum, "random source asked for a value below the total weight")
	var lo int64
	for i := 0; i < got; i++ {
		lo += w[i]
	}
	verifAssert(lo <= draw && draw < lo+w[got], "draw falls in the chosen item's weight interval (probability w_i / sum)")
	verifAssert(w[got] > 0, "zero-weight item is never chosen")
	verifCover("weighted")
}

// EDF selector: over one period of sum(w) picks each item appears exactly w_i times.
func verifH_C38_edf() {
	n := 2 + verifChoice("n", 2)
	w := make([]int64, n)
	e := NewEDF()
	total := 0
	for i := 0; i < n; i++ {
		w[i] = int64(1 + verifChoice("w", 3))
		total += int(w[i])
		e.Add(i, w[i])
	}
	cnt := make([]int, n)
	for k := 0; k < total; k++ {
		cnt[e.Next().(int)]++
	}
	for i := 0; i < n; i++ {
		verifAssert(int64(cnt[i]) == w[i], "EDF: item chosen w_i times per period")
	}
	verifCover("edf-period")
}
