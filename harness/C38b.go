//go:build verif

// C38 (part b): xDS drop categories and circuit breaking in clusterimpl.
//verif:pkg internal/xds/balancer/clusterimpl
//verif:bound loop=64 steps=2000000
//verif:outside drop fractions whose requests-per-million is not one of the 9 sampled values in the dropper harness (the gcd reduction runs concretely on those; the draw is symbolic); concurrent circuit-breaker races (documented as eventually consistent)
package clusterimpl

import (
	"context"

	"google.golang.org/grpc/balancer"
	"google.golang.org/grpc/connectivity"
	"google.golang.org/grpc/internal/wrr"
	"google.golang.org/grpc/internal/xds/xdsclient"
)

// requests-per-million: numerator/denominator as a capped integer fraction, for every numerator.
func verifH_C38_rpm() {
	num := verifUint32("num")
	var den uint32
	switch verifChoice("den", 3) {
	case 0:
		den = 100
	case 1:
		den = 10000
	default:
		den = 1000000
	}
	got := dropRequestsPerMillion(num, den)
	verifAssert(got <= 1000000, "capped at a million")
	if num >= den {
		verifAssert(got == 1000000, "fractions of 100% or more drop everything")
		verifCover("capped")
	} else {
		verifAssert(uint64(got) == uint64(num)*uint64(1000000/den), "exact requests per million")
		verifCover("exact")
	}
}

var verifRPMs = [...]uint32{0, 1, 2, 250000, 333333, 500000, 999999, 1000000, 123456}

type verifFixedWRR struct {
	items   []any
	weights []int64
}

func (f *verifFixedWRR) Add(item any, weight int64) {
	f.items = append(f.items, item)
	f.weights = append(f.weights, weight)
}

// Next implements the documented contract of a weighted random selector with an explicit draw.
func (f *verifFixedWRR) Next() any {
	var sum int64
	for _, w := range f.weights {
		sum += w
	}
	r := verifInt64("draw")
	verifAssume(r >= 0 && r < sum)
	verifDraw, verifSum = r, sum
	for i, w := range f.weights {
		if r < w {
			return f.items[i]
		}
		r -= w
	}
	return nil
}

var verifDraw, verifSum int64

// a drop category drops exactly rpm out of a million equally likely draws.
func verifH_C38_dropper() {
	rpm := verifRPMs[verifChoice("rpm", len(verifRPMs))]
	saved := NewRandomWRR
	NewRandomWRR = func() wrr.WRR { return &verifFixedWRR{} }
	d := newDropper(DropConfig{Category: "c", RequestsPerMillion: rpm})
	NewRandomWRR = saved
	dropped := d.drop()
	// draws are uniform in [0,sum): dropped iff draw < sum*rpm/1e6, and sum divides a million
	verifAssert(verifSum > 0 && 1000000%verifSum == 0, "weights are the fraction in lowest terms")
	scale := 1000000 / verifSum
	verifAssert(dropped == (verifDraw*scale < int64(rpm)), "drops exactly rpm per million draws")
	if dropped {
		verifCover("dropped")
	} else {
		verifCover("admitted")
	}
}

type verifChildPicker struct{ calls int }

func (p *verifChildPicker) Pick(balancer.PickInfo) (balancer.PickResult, error) {
	p.calls++
	return balancer.PickResult{}, balancer.ErrNoSubConnAvailable
}

type verifAlwaysDrop struct{}

func (verifAlwaysDrop) Add(any, int64) {}
func (verifAlwaysDrop) Next() any     { return true }

// drops happen only while the child policy reports READY.
func verifH_C38_onlyready() {
	st := connectivity.State(verifChoice("state", 5))
	child := &verifChildPicker{}
	p := &picker{
		drops: []*dropper{{category: "c", w: verifAlwaysDrop{}}},
		s:     balancer.State{ConnectivityState: st, Picker: child},
	}
	_, err := p.Pick(balancer.PickInfo{Ctx: context.Background()})
	if st == connectivity.Ready {
		verifAssert(child.calls == 0 && err != nil && err != balancer.ErrNoSubConnAvailable, "READY child: RPC dropped before reaching the child")
		verifCover("ready-dropped")
	} else {
		verifAssert(child.calls == 1 && err == balancer.ErrNoSubConnAvailable, "child not READY: never dropped, child consulted")
		verifCover("not-ready-passed")
	}
}

// circuit breaking: sequential picks never admit more than max in flight; count returns to zero.
func verifH_C38_breaker() {
	max := uint32(verifChoice("max", 4))
	c := &xdsclient.ClusterRequestsCounter{ClusterName: "c"}
	inflight := 0
	admittedTotal := 0
	for step := 0; step < 6; step++ {
		if verifChoice("op", 2) == 0 {
			if err := c.StartRequest(max); err == nil {
				inflight++
				admittedTotal++
				verifAssert(uint32(inflight) <= max, "never more than max_requests in flight")
			} else {
				verifAssert(uint32(inflight) >= max, "rejected only at the limit")
			}
		} else if inflight > 0 {
			c.EndRequest()
			inflight--
		}
	}
	for inflight > 0 {
		c.EndRequest()
		inflight--
	}
	verifAssert(c.StartRequest(1) == nil || max == 0 && false, "count is back to zero after all admitted RPCs finish")
	if admittedTotal > 0 {
		verifCover("admitted-some")
	} else {
		verifCover("admitted-none")
	}
}
