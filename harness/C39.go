//go:build verif

// C39: priority failover uses the best available priority.
//
//verif:pkg internal/xds/balancer/priority
//verif:bound loop=64 steps=8000000 preempt=0 paths=600000
//verif:noop (*google.golang.org/grpc/internal/grpclog.PrefixLogger).V
//verif:noop (*google.golang.org/grpc/internal/grpclog.PrefixLogger).Infof
//verif:noop (*google.golang.org/grpc/internal/grpclog.PrefixLogger).Warningf
//verif:noop (*google.golang.org/grpc/internal/grpclog.PrefixLogger).Errorf
//verif:noop (*google.golang.org/grpc/internal/grpclog.PrefixLogger).Debugf
//verif:noop google.golang.org/grpc/internal/channelz.Infof
//verif:noop google.golang.org/grpc/internal/pretty.ToJSON
//verif:noreplay virtual clock and quiescence-driven event sequencing: witnesses are re-executed deterministically in the engine
//verif:outside child policies are a harness policy that reports whatever connectivity state the path chooses (the real priorityBalancer, balancergroup, gracefulswitch and the run() goroutine are executed); 3 priorities, 4 events (quick) / 5 events (thorough) (a started child reports READY / IDLE / CONNECTING / TRANSIENT_FAILURE, or 10 s pass); each event is processed to quiescence before the next (no racing child updates); configuration updates that add or remove priorities; subchannels
package priority

import (
	"time"

	"google.golang.org/grpc/balancer"
	"google.golang.org/grpc/connectivity"
	iserviceconfig "google.golang.org/grpc/internal/serviceconfig"
	"google.golang.org/grpc/resolver"
	"google.golang.org/grpc/serviceconfig"
)

const verifChildName = "verif_child_policy"

type verifChild struct {
	cc     balancer.ClientConn
	closed bool
}

func (c *verifChild) UpdateClientConnState(balancer.ClientConnState) error { return nil }
func (c *verifChild) ResolverError(error)                                  {}
func (c *verifChild) UpdateSubConnState(balancer.SubConn, balancer.SubConnState) {
}
func (c *verifChild) Close()    { c.closed = true }
func (c *verifChild) ExitIdle() {}

var verifBuilt []*verifChild

type verifChildBuilder struct{}

func (verifChildBuilder) Name() string { return verifChildName }
func (verifChildBuilder) Build(cc balancer.ClientConn, _ balancer.BuildOptions) balancer.Balancer {
	c := &verifChild{cc: cc}
	verifBuilt = append(verifBuilt, c)
	return c
}

type verifPicker struct {
	child string
	seq   int
}

func (p *verifPicker) Pick(balancer.PickInfo) (balancer.PickResult, error) {
	return balancer.PickResult{}, balancer.ErrNoSubConnAvailable
}

type verifParentCC struct {
	balancer.ClientConn
	states []balancer.State
}

func (c *verifParentCC) UpdateState(s balancer.State)                    { c.states = append(c.states, s) }
func (c *verifParentCC) ResolveNow(resolver.ResolveNowOptions)            {}
func (c *verifParentCC) Target() string                                   { return "t" }
func (c *verifParentCC) ParseServiceConfig(string) *serviceconfig.ParseResult { return nil }

// what the property says about one priority, tracked from the events alone (ghost)
type verifGhost struct {
	started       bool
	state         connectivity.State // last report since it was started
	reported      bool               // a report has arrived since it was started
	withinTimeout bool               // still within its initial connection timeout
	reportedTF    bool
	pickerSeq     int
	handle        *verifChild
	everReported  bool
	lastState     connectivity.State // state when it was last stopped
}

var verifPrioNames = [...]string{"p0", "p1", "p2"}

var verifC39Events = 4
var verifC39Reorder = false

// a configuration update may reorder the priorities once, among 3 other events
func verifH_C39_reorder() {
	verifC39Events, verifC39Reorder = 4, true
	verifH_C39_failover()
}

// thorough only: five events
//
//verif:thoroughonly verifH_C39_failover5
func verifH_C39_failover5() {
	verifC39Events = 5
	verifH_C39_failover()
}

func verifH_C39_failover() {
	verifBuilt = nil
	verifHoldTimers(true) // the harness decides when 10 s pass
	balancer.Register(verifChildBuilder{})
	cc := &verifParentCC{}
	pb := bb{}.Build(cc, balancer.BuildOptions{}).(*priorityBalancer)
	cfg := &LBConfig{Children: map[string]*Child{}, Priorities: verifPrioNames[:]}
	for _, n := range verifPrioNames {
		cfg.Children[n] = &Child{Config: &iserviceconfig.BalancerConfig{Name: verifChildName}}
	}
	err := pb.UpdateClientConnState(balancer.ClientConnState{BalancerConfig: cfg})
	verifAssert(err == nil, "the configuration is accepted")

	g := make([]*verifGhost, 3)
	for i := range g {
		g[i] = &verifGhost{state: connectivity.Connecting}
	}
	usable := func(x *verifGhost) bool {
		return !x.started || x.state == connectivity.Ready || x.state == connectivity.Idle || x.state == connectivity.Connecting && x.withinTimeout
	}
	seq := 0
	nEvents := verifC39Events
	ord := []int{0, 1, 2} // priority position -> child index (changes when a configuration update reorders priorities)
	at := func(p int) *verifGhost { return g[ord[p]] }
	reordered := false
	var step func(i int)
	step = func(i int) {
		// ---- the balancer is quiescent: compare it with what the property prescribes ----
		want := 2
		pb.mu.Lock()
		inUse := pb.childInUse
		for p, n := range verifPrioNames {
			c := pb.children[n]
			// the ghost learns which children the balancer has started (a child is started when it becomes the one in use)
			if c.started && !g[p].started {
				g[p].started, g[p].state, g[p].reported, g[p].withinTimeout, g[p].reportedTF = true, connectivity.Connecting, false, true, false
				if g[p].handle == nil {
					verifAssert(len(verifBuilt) > 0, "starting a priority builds its child policy")
					g[p].handle = verifBuilt[len(verifBuilt)-1]
				} else if g[p].everReported {
					// a stopped child policy is kept for a while; when its priority is started again it is reused and its
					// last picker is replayed as if it had just reported it
					st := g[p].lastState
					g[p].state, g[p].reported = st, true
					g[p].withinTimeout = st == connectivity.Connecting
					g[p].reportedTF = st == connectivity.TransientFailure
				}
			}
			if !c.started && g[p].started {
				g[p].lastState = g[p].state
				g[p].started, g[p].state, g[p].withinTimeout, g[p].reportedTF = false, connectivity.Connecting, false, false
			}
		}
		pb.mu.Unlock()
		// recompute after learning about starts (a newly started child is within its timeout)
		want = 2
		for p := 0; p < 3; p++ {
			if usable(at(p)) {
				want = p
				break
			}
		}
		verifAssert(inUse == verifPrioNames[ord[want]], "the child in use is the highest priority that is READY or IDLE or still within its initial connection timeout, else the lowest priority")
		verifAssert(at(want).started, "the child in use is started")
		for p := 0; p < 3; p++ {
			if p < want {
				verifAssert(at(p).started || reordered, "lower priorities are only started after all higher ones were tried")
				verifAssert(!usable(at(p)) || !at(p).started, "every priority above the one in use has failed or timed out")
			}
			if p > want {
				verifAssert(!at(p).started, "priorities below the one in use are stopped (closed once a higher priority is usable again)")
			}
		}
		verifAssert(len(cc.states) > 0, "a picker has been reported to the parent")
		last := cc.states[len(cc.states)-1]
		if at(want).reported {
			vp, ok := last.Picker.(*verifPicker)
			verifAssert(ok && vp.child == verifPrioNames[ord[want]] && vp.seq == at(want).pickerSeq && last.ConnectivityState == at(want).state, "the picker reported to the parent is the latest picker of the child in use")
		} else {
			_, ok := last.Picker.(*verifPicker)
			verifAssert(!ok && last.ConnectivityState == connectivity.Connecting, "before the child in use reports, the parent sees CONNECTING with a queuing picker")
		}
		if !reordered && want == 2 && g[0].state == connectivity.TransientFailure && g[1].started {
			verifCover("failed-over-to-lowest")
		}
		if !reordered && want == 0 && g[0].reported && g[0].state == connectivity.Ready && i >= 3 {
			verifCover("back-to-highest")
		}
		if i == nEvents {
			pb.Close()
			verifCover("done")
			return
		}
		// ---- next event ----
		if verifC39Reorder && !reordered && verifBool("configuration-update-reorders-priorities") {
			reordered = true
			ord = [][]int{{1, 0, 2}, {0, 2, 1}, {2, 1, 0}}[verifChoice("new-order", 3)]
			ncfg := &LBConfig{Children: cfg.Children, Priorities: []string{verifPrioNames[ord[0]], verifPrioNames[ord[1]], verifPrioNames[ord[2]]}}
			verifAssert(pb.UpdateClientConnState(balancer.ClientConnState{BalancerConfig: ncfg}) == nil, "the reordered configuration is accepted")
			verifCover("reordered")
		} else if verifBool("ten-seconds-pass") {
			verifAdvance(int64(DefaultPriorityInitTimeout))
			for p := 0; p < 3; p++ {
				g[p].withinTimeout = false
			}
		} else {
			p := verifChoice("reporting-priority", 3)
			verifAssume(g[p].started)
			st := [...]connectivity.State{connectivity.Ready, connectivity.Idle, connectivity.Connecting, connectivity.TransientFailure}[verifChoice("reported-state", 4)]
			seq++
			prev := g[p].state
			g[p].pickerSeq, g[p].reported, g[p].everReported = seq, true, true
			switch st {
			case connectivity.Ready, connectivity.Idle:
				g[p].withinTimeout, g[p].reportedTF = false, false
			case connectivity.TransientFailure:
				g[p].withinTimeout, g[p].reportedTF = false, true
			case connectivity.Connecting:
				// A56: a child that returns to CONNECTING from READY/IDLE gets a fresh timeout; one that has failed does not
				if !g[p].reportedTF && prev != connectivity.Connecting {
					g[p].withinTimeout = true
				}
			}
			g[p].state = st
			g[p].handle.cc.UpdateState(balancer.State{ConnectivityState: st, Picker: &verifPicker{child: verifPrioNames[p], seq: seq}})
		}
		verifAtQuiescence(func() { step(i + 1) })
	}
	verifAtQuiescence(func() { step(0) })
	_ = time.Second
}
