//go:build verif

// C40 (in part): the outlier-detection interval pass: failure-percentage ejection, the max_ejection_percent gate, un-ejection timing, multipliers.
//
//verif:pkg internal/xds/balancer/outlierdetection
//verif:bound loop=64 steps=6000000 paths=600000
//verif:noop google.golang.org/grpc/internal/channelz.Infof
//verif:noop (*google.golang.org/grpc/experimental/stats.Int64CountHandle).Record
//verif:lazyfp
//verif:noreplay virtual clock and map-iteration order (the interval pass walks a Go map; the engine iterates in insertion order, natively the order is random): witnesses are re-executed deterministically in the engine
//verif:outside NOT decided: the success-rate criterion (float64 mean / standard deviation / Sqrt over symbolic counters), what the child policy observes (subchannel wrappers receive eject/uneject updates, checked; their delivery through the run() goroutine is not executed), configuration updates (no-op config, endpoint removal). Decided for one interval pass over 3 endpoints from an arbitrary pre-state within: per-endpoint interval counts from {idle, 25 ok, 18 ok + 7 failed}, threshold and max_ejection_percent symbolic in 0..100, enforcement 100 (0 as well in the thorough tier), minimum_hosts 1 or 3, request_volume 10, base ejection time 30 s, max ejection time 0 or 300 s, one endpoint possibly ejected with multiplier 1 or 3, elapsed time symbolic in 0..1 h
package outlierdetection

import (
	"time"

	"google.golang.org/grpc/internal/buffer"
	iserviceconfig "google.golang.org/grpc/internal/serviceconfig"
	"google.golang.org/grpc/resolver"
)

// (successes, failures) of the finished interval: idle, healthy, 28% failures
var verifCounts = [...][2]uint32{{0, 0}, {25, 0}, {18, 7}}
var verifThorough = false

//verif:thoroughonly verifH_C40_interval_enforcement
func verifH_C40_interval_enforcement() {
	verifThorough = true
	verifH_C40_interval()
}

var verifDur = [...]time.Duration{0, 30 * time.Second, 300 * time.Second}
var verifEPs = [...]string{"10.0.0.1:80", "10.0.0.2:80", "10.0.0.3:80"}

type verifPre struct {
	succ, fail uint32
	ejected    bool
	mult       int64
	ejectedAt  time.Time
}

func verifH_C40_interval() {
	savedAfter, savedNow := afterFunc, now
	afterFunc = func(time.Duration, func()) *time.Timer { return nil } // the next pass is not scheduled
	now = time.Now
	defer func() { afterFunc, now = savedAfter, savedNow }()

	threshold := verifUint32("threshold")
	maxPct := verifUint32("max_ejection_percent")
	verifAssume(threshold <= 100 && maxPct <= 100)
	enforce := uint32(100)
	if verifThorough && verifBool("enforcement-0") {
		enforce = 0
	}
	minHosts := uint32(1 + 2*verifChoice("minimum_hosts-1-or-3", 2))
	reqVol := uint32(10)
	base := 30 * time.Second
	maxEj := verifDur[2*verifChoice("max_ejection_time-0-or-300s", 2)]
	cfg := &LBConfig{Interval: iserviceconfig.Duration(10 * time.Second), BaseEjectionTime: iserviceconfig.Duration(base), MaxEjectionTime: iserviceconfig.Duration(maxEj),
		MaxEjectionPercent: maxPct, FailurePercentageEjection: &FailurePercentageEjection{Threshold: threshold, EnforcementPercentage: enforce, MinimumHosts: minHosts, RequestVolume: reqVol}}
	b := &outlierDetectionBalancer{cfg: cfg, endpoints: resolver.NewEndpointMap[*endpointInfo]()}
	t0 := time.Now()
	pre := make([]verifPre, 3)
	infos := make([]*endpointInfo, 3)
	chans := make([]*buffer.Unbounded[any], 3)
	for i := range pre {
		p := &pre[i]
		c := verifCounts[verifChoice("interval-counts", len(verifCounts))]
		p.succ, p.fail = c[0], c[1]
		switch i {
		case 0:
			switch verifChoice("endpoint0-state", 3) {
			case 1:
				p.ejected, p.ejectedAt, p.mult = true, t0, 1
			case 2:
				p.ejected, p.ejectedAt, p.mult = true, t0, 3
			}
			if p.ejected {
				b.numEndpointsEjected++
			}
		case 1:
			p.mult = int64(verifChoice("ejection-time-multiplier", 2))
		}
		chans[i] = buffer.NewUnbounded[any]()
		ei := newEndpointInfo()
		ei.callCounter.activeBucket.Store(&bucket{numSuccesses: p.succ, numFailures: p.fail})
		ei.ejectionTimeMultiplier = p.mult
		ei.latestEjectionTimestamp = p.ejectedAt
		ei.sws = []*subConnWrapper{{scUpdateCh: chans[i]}}
		infos[i] = ei
		b.endpoints.Set(resolver.Endpoint{Addresses: []resolver.Address{{Addr: verifEPs[i]}}}, ei)
	}
	elapsed := verifInt64("time-since-ejection")
	verifAssume(elapsed >= 0 && elapsed <= int64(time.Hour))
	verifAdvance(elapsed)

	b.intervalTimerAlgorithm()

	// reference, in exact integer arithmetic
	considered := 0
	for _, p := range pre {
		if p.succ+p.fail >= reqVol {
			considered++
		}
	}
	ejectedNow, unejected := 0, 0 // ejections are decided before un-ejections within one pass
	if pre[0].ejected {
		ejectedNow = 1
	}
	for i, p := range pre {
		ei := infos[i]
		verifAssert(ei.callCounter.inactiveBucket.numSuccesses == p.succ && ei.callCounter.inactiveBucket.numFailures == p.fail, "the counters of the finished interval are the ones examined")
		ab := ei.callCounter.activeBucket.Load()
		verifAssert(ab.numSuccesses == 0 && ab.numFailures == 0, "a fresh interval starts from zero")
		newly := !p.ejected && !ei.latestEjectionTimestamp.IsZero()
		total := uint64(p.succ + p.fail)
		fails := uint64(p.fail)*100 > uint64(threshold)*total // failure percentage strictly above the threshold
		gate := uint64(ejectedNow)*100 >= uint64(maxPct)*3   // ejected share of the current endpoints at or above max_ejection_percent
		should := p.succ+p.fail >= reqVol && considered >= int(minHosts) && fails && !gate && enforce == 100
		// an endpoint that is already ejected can meet the criteria again (RPCs in flight when it was ejected):
		// its ejection is renewed, and it is still counted once
		renewed := p.ejected && should
		if renewed {
			verifAssert(!ei.latestEjectionTimestamp.IsZero() && ei.ejectionTimeMultiplier == p.mult+1, "a renewed ejection restarts the ejection period and raises the multiplier")
			verifCover("ejection-renewed")
		}
		if newly {
			verifAssert(p.succ+p.fail >= reqVol, "an endpoint is ejected only if it has at least the configured request volume")
			verifAssert(considered >= int(minHosts), "and enough endpoints have that volume")
			verifAssertKF(fails, "and it fails the failure-percentage criterion (failure percentage above the threshold)", "F14-failure-percentage-rounding", uint64(p.fail)*100 == uint64(threshold)*total)
			verifAssert(!gate, "no ejection happens while the ejected share of current endpoints is at or above max_ejection_percent")
			verifAssert(enforce == 100, "and enforcement applies")
			verifAssert(ei.ejectionTimeMultiplier == p.mult+1, "an ejection raises the endpoint's multiplier by one")
			ejectedNow++
			verifCover("ejected")
		} else if !p.ejected {
			verifAssertKF(!should, "an endpoint that meets every criterion is ejected", "F14-failure-percentage-rounding", false)
			if p.mult > 0 {
				verifAssert(ei.ejectionTimeMultiplier == p.mult-1, "an endpoint that stays healthy has its multiplier lowered by one")
			} else {
				verifAssert(ei.ejectionTimeMultiplier == 0, "never below zero")
			}
		}
		// eject / uneject notifications to the endpoint's subchannels
		var got []bool
		for {
			select {
			case u := <-chans[i].Get():
				chans[i].Load()
				got = append(got, u.(*ejectionUpdate).isEjected)
				continue
			default:
			}
			break
		}
		if renewed {
			verifAssert(len(got) == 1 && got[0], "the subchannels of a re-ejected endpoint are told so")
		} else if p.ejected {
			et := base * time.Duration(p.mult)
			met := base
			if maxEj > met {
				met = maxEj
			}
			if et > met {
				et = met
			}
			due := time.Duration(elapsed) > et
			verifAssert(ei.latestEjectionTimestamp.IsZero() == due, "an ejected endpoint is un-ejected once min(base_ejection_time x multiplier, max(base_ejection_time, max_ejection_time)) has elapsed, and not before")
			verifAssert(ei.ejectionTimeMultiplier == p.mult, "un-ejection leaves the multiplier")
			if due {
				verifAssert(len(got) == 1 && !got[0], "its subchannels are told they are un-ejected")
				unejected++
				verifCover("unejected")
			} else {
				verifAssert(len(got) == 0, "an endpoint that stays ejected gets no update")
				verifCover("stays-ejected")
			}
		} else if newly {
			verifAssert(len(got) == 1 && got[0], "the subchannels of an ejected endpoint are told so (they appear TRANSIENT_FAILURE to the child)")
		} else {
			verifAssert(len(got) == 0, "no update for an endpoint whose state does not change")
		}
	}
	verifAssert(b.numEndpointsEjected == ejectedNow-unejected, "the ejected-endpoint count matches the endpoints actually ejected")
}
