//go:build verif

// C41 (part a): the adaptive throttler's lookback window counts exactly the events of the last `bins` bins.
//verif:pkg balancer/rls/internal/adaptive
//verif:bound loop=16 steps=2000000
//verif:assume inductive step: before the operation the ring buffer holds, for every absolute bin in (head-bins, head], the events recorded for that bin, total is their sum (established by newLookback and preserved by add/sum, which is what this harness shows); counts below 2^40 so sums do not overflow
//verif:outside bin counts other than 4; bin widths that are not a power of two (the division is then a multiplication-heavy kernel; the width only scales the time axis); times outside one second of the epoch; head bins other than 400..403 (every ring position; the event time is arbitrary within the second, before or after head)
package adaptive

import "time"

const verifBins = 4
const verifWidth = time.Duration(1 << 20)

func verifTime(name string) (time.Time, int64) {
	n := verifInt64(name)
	verifAssume(n >= 0 && n < 999999999)
	return time.Unix(0, n), n >> 20
}

func verifH_C41_lookback() {
	l := newLookback(verifBins, verifBins*verifWidth)
	verifAssert(l.width == verifWidth, "bin width = duration / bins")
	// arbitrary reachable state
	head := int64(400 + verifChoice("head", verifBins)) // every residue of the ring position
	l.head = head
	var ghost [verifBins]int64 // ghost[k] = events of absolute bin head-k
	var sum int64
	for k := 0; k < verifBins; k++ {
		g := verifInt64("count")
		verifAssume(g >= 0 && g < 1<<40)
		if head-int64(k) < 0 {
			g = 0 // bins before the epoch never received events
		}
		ghost[k] = g
		sum += g
		b := head - int64(k)
		l.buf[((b%verifBins)+verifBins)%verifBins] = g
	}
	l.total = sum

	t, pos := verifTime("t")
	isAdd := verifBool("add")
	v := verifInt64("v")
	verifAssume(v >= 0 && v < 1<<40)
	var got int64
	if isAdd {
		l.add(t, v)
	} else {
		got = l.sum(t)
	}
	// reference window after the operation
	nh := head
	if pos > nh {
		nh = pos
	}
	verifAssert(l.head == nh, "head only moves forward, to the bin of the latest time seen")
	var want int64
	for k := 0; k < verifBins; k++ {
		b := nh - int64(k) // absolute bin in the new window
		var e int64
		if d := head - b; d >= 0 && d < verifBins {
			e = ghost[d] // still inside the old window
		}
		if isAdd && b == pos {
			e += v
		}
		if b >= 0 {
			verifAssert(l.buf[b%verifBins] == e, "each bin of the window holds exactly the events recorded for it")
		}
		want += e
	}
	verifAssert(l.total == want, "total equals the events of exactly the last `bins` bins")
	if !isAdd {
		verifAssert(got == want, "sum returns that total")
	}
	if pos < head-verifBins+1 {
		verifCover("stale-event-dropped")
	}
	if pos == head-verifBins {
		verifCover("exactly-bins-behind")
	}
	if pos > head+verifBins {
		verifCover("window-cleared")
	}
	verifCover("step")
}
