//go:build verif

// C41 (part b): RLS request keys (package keys).
//verif:pkg balancer/rls/internal/keys
//verif:bound loop=40 steps=4000000
//verif:outside more than 2 header key builders x 2 names; header values longer than 1 byte x 2 values; key maps with more than 2 entries in the injectivity harness
package keys

import "google.golang.org/grpc/metadata"

func verifJoin(vs []string) string {
	s := ""
	for i, v := range vs {
		if i > 0 {
			s += ","
		}
		s += v
	}
	return s
}

func verifVals(name string) []string {
	switch verifChoice(name, 3) {
	case 1:
		return []string{verifString("v", 1)}
	case 2:
		return []string{verifString("v", 1), verifString("v", 1)}
	}
	return nil
}

// key map = first present header's comma-joined values per key builder + host/service/method + constants
func verifH_C41_key() {
	b := builder{headerKeys: []matcher{{key: "k1", names: []string{"h1", "h2"}}, {key: "k2", names: []string{"h3"}}}}
	useHost, useSvc, useMeth, useConst := verifBool("host"), verifBool("service"), verifBool("method"), verifBool("const")
	if useHost {
		b.hostKey = "hk"
	}
	if useSvc {
		b.serviceKey = "sk"
	}
	if useMeth {
		b.methodKey = "mk"
	}
	if useConst {
		b.constantKeys = map[string]string{"ck": "cv"}
	}
	bm := BuilderMap{}
	exact := verifBool("exactPath")
	if exact {
		bm["/svc/meth"] = b
	} else {
		bm["/svc/"] = b
	}
	md := metadata.MD{}
	h1, h2, h3 := verifVals("h1"), verifVals("h2"), verifVals("h3")
	if h1 != nil {
		md["h1"] = h1
	}
	if h2 != nil {
		md["h2"] = h2
	}
	if h3 != nil {
		md["h3"] = h3
	}
	km := bm.RLSKey(md, "the-host", "/svc/meth")
	want := map[string]string{}
	if h1 != nil {
		want["k1"] = verifJoin(h1)
	} else if h2 != nil {
		want["k1"] = verifJoin(h2)
	}
	if h3 != nil {
		want["k2"] = verifJoin(h3)
	}
	if useHost {
		want["hk"] = "the-host"
	}
	if useSvc {
		want["sk"] = "svc"
	}
	if useMeth {
		want["mk"] = "meth"
	}
	if useConst {
		want["ck"] = "cv"
	}
	verifAssert(len(km.Map) == len(want), "key map has exactly the expected keys")
	for k, v := range want {
		got, ok := km.Map[k]
		verifAssert(ok && got == v, "first present header's comma-joined values, plus host/service/method/constant keys")
	}
	if h1 == nil && h2 != nil {
		verifCover("second-name-used")
	}
	verifCover("done")
}

func verifHasComma(s string) bool {
	for i := 0; i < len(s); i++ {
		if s[i] == ',' {
			return true
		}
	}
	return false
}

// two different key maps never share a cache entry (the string form is the cache key)
func verifH_C41_injective() {
	m1 := map[string]string{"a": verifString("a1", 4)}
	m2 := map[string]string{"a": verifString("a2", 2)}
	if verifBool("b1") {
		m1["b"] = verifString("b1v", 1)
	}
	if verifBool("b2") {
		m2["b"] = verifString("b2v", 1)
	}
	same := len(m1) == len(m2) && m1["a"] == m2["a"] && m1["b"] == m2["b"]
	s1, s2 := mapToString(m1), mapToString(m2)
	comma := verifHasComma(m1["a"]) || verifHasComma(m2["a"]) || verifHasComma(m1["b"]) || verifHasComma(m2["b"])
	if same {
		verifAssert(s1 == s2, "equal key maps give the same cache key")
		verifCover("same")
	} else {
		verifAssertKF(s1 != s2, "different key maps never share a cache entry", "F4-rls-key-not-injective", comma)
		verifCover("different")
	}
}
