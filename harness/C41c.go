//go:build verif

// C41 (part c): the RLS data cache accounts sizes exactly and evicts in LRU order.
//verif:pkg balancer/rls
//verif:bound loop=40 steps=4000000
//verif:outside more than 3 cache entries and more than 4 operations per history; entry sizes above 2^40; backoff timers on entries (nil in this harness)
package rls

import (
	"time"

	"google.golang.org/grpc/internal/grpcsync"
)

type verifEnt struct {
	key       cacheKey
	size      int64
	evictable bool
	e         *cacheEntry
}

var verifCacheKeys = [...]cacheKey{{path: "p", keys: "a"}, {path: "p", keys: "b"}, {path: "q", keys: "a"}}

func verifGhostSum(g []verifEnt) int64 {
	var s int64
	for _, x := range g {
		s += x.size
	}
	return s
}

// reference eviction: drop least-recently-used entries while over the limit, stopping at the first
// entry that is not yet evictable
func verifGhostResize(g []verifEnt, limit int64) []verifEnt {
	for len(g) > 0 && verifGhostSum(g) > limit && g[0].evictable {
		g = g[1:]
	}
	return g
}

func verifCheckCache(dc *dataCache, g []verifEnt, label string) {
	verifAssert(dc.currentSize == verifGhostSum(g), label+": accounted size equals the sum of the entries' sizes")
	verifAssert(len(dc.entries) == len(g) && dc.keys.ll.Len() == len(g), label+": exactly the expected entries remain")
	el := dc.keys.ll.Front()
	for _, x := range g {
		verifAssert(dc.entries[x.key] == x.e, label+": surviving entry still cached")
		verifAssert(el != nil && el.Value.(cacheKey) == x.key, label+": LRU order is least-recently-used first")
		if el != nil {
			el = el.Next()
		}
	}
}

func verifH_C41_cache() {
	max := verifInt64("max")
	verifAssume(max >= 0 && max < 1<<42)
	dc := &dataCache{maxSize: max, keys: newLRU(), entries: make(map[cacheKey]*cacheEntry), shutdown: grpcsync.NewEvent()}
	var g []verifEnt
	future := time.Now().Add(time.Hour)
	nops := 2 + verifChoice("nops", 3)
	next := 0
	evictions := 0
	for i := 0; i < nops; i++ {
		switch verifChoice("op", 4) {
		case 0: // add a fresh key (the only caller guarantees the key is absent)
			if next >= len(verifCacheKeys) {
				continue
			}
			sz := verifInt64("size")
			verifAssume(sz >= 0 && sz < 1<<40)
			ev := verifBool("evictable")
			e := &cacheEntry{size: sz}
			if !ev {
				e.earliestEvictTime = future
			}
			k := verifCacheKeys[next]
			next++
			_, ok := dc.addEntry(k, e)
			if sz > max {
				verifAssert(!ok, "an entry larger than the cache is refused")
			} else {
				verifAssert(ok, "entry accepted")
				g = append(g, verifEnt{k, sz, ev, e})
				before := len(g)
				g = verifGhostResize(g, max)
				evictions += before - len(g)
			}
		case 1: // lookup makes the entry most recently used
			k := verifCacheKeys[verifChoice("key", 3)]
			got := dc.getEntry(k)
			idx := -1
			for j := range g {
				if g[j].key == k {
					idx = j
				}
			}
			if idx < 0 {
				verifAssert(got == nil, "miss")
			} else {
				verifAssert(got == g[idx].e, "hit returns the entry")
				x := g[idx]
				g = append(append(append([]verifEnt{}, g[:idx]...), g[idx+1:]...), x)
			}
		case 2: // resize
			nm := verifInt64("newmax")
			verifAssume(nm >= 0 && nm < 1<<42)
			dc.resize(nm)
			before := len(g)
			g = verifGhostResize(g, nm)
			evictions += before - len(g)
			max = nm
			verifAssert(dc.maxSize == nm, "new limit recorded")
		case 3: // an entry's size changes
			if len(g) == 0 {
				continue
			}
			j := verifChoice("which", 3)
			if j >= len(g) {
				continue
			}
			ns := verifInt64("newsize")
			verifAssume(ns >= 0 && ns < 1<<40)
			dc.updateEntrySize(g[j].e, ns)
			g[j].size = ns
		}
		verifCheckCache(dc, g, "after each operation")
	}
	if evictions > 0 {
		verifCover("evicted")
	}
	if len(g) >= 2 {
		verifCover("two-entries")
	}
	verifCover("done")
}
