//go:build verif

// C42: ADS requests carry correct versions, nonces and subscriptions.
//
//verif:pkg internal/xds/clients/xdsclient
//verif:bound loop=64 steps=8000000 preempt=0 paths=1500000
//verif:stub google.golang.org/protobuf/proto.Marshal => verifStubMarshal
//verif:stub google.golang.org/protobuf/proto.Unmarshal => verifStubUnmarshal
//verif:noop (*google.golang.org/grpc/internal/grpclog.PrefixLogger).V
//verif:noop (*google.golang.org/grpc/internal/grpclog.PrefixLogger).Infof
//verif:noop (*google.golang.org/grpc/internal/grpclog.PrefixLogger).Warningf
//verif:noop (*google.golang.org/grpc/internal/grpclog.PrefixLogger).Errorf
//verif:noop google.golang.org/grpc/internal/pretty.ToJSON
//verif:noreplay stubbed wire codec and quiescence-driven event sequencing: witnesses are re-executed deterministically in the engine
//verif:outside the protobuf wire codec (proto.Marshal / proto.Unmarshal are reflection-driven; replaced by stubs that hand the DiscoveryRequest / DiscoveryResponse structs over as they are); the transport (a harness stream whose Recv blocks until the harness delivers a response or breaks the stream); what the xdsChannel does with a response (the event handler ACKs or NACKs as the path chooses and completes processing when the path says so); 2 resource types x 2 names, 4 events (quick) / 5 (thorough), each processed to quiescence before the next; resource watch-expiry timers fire but are not judged here (C43)
package xdsclient

import (
	"context"
	"errors"
	"sort"
	"time"

	v3corepb "github.com/envoyproxy/go-control-plane/envoy/config/core/v3"
	v3discoverypb "github.com/envoyproxy/go-control-plane/envoy/service/discovery/v3"
	"google.golang.org/grpc/internal/xds/clients"
	"google.golang.org/protobuf/proto"
)

type verifSentReq struct {
	req    *v3discoverypb.DiscoveryRequest
	stream int
}

var (
	verifLastMarshalled *v3discoverypb.DiscoveryRequest
	verifSent           []verifSentReq
	verifResponses      []*v3discoverypb.DiscoveryResponse
	verifPendingDone    func() // completion callback of the response being processed by the watchers
	verifProcessing     bool
)

func verifStubMarshal(m proto.Message) ([]byte, error) {
	verifLastMarshalled = m.(*v3discoverypb.DiscoveryRequest)
	return []byte{0}, nil
}

func verifStubUnmarshal(b []byte, m proto.Message) error {
	r := verifResponses[int(b[0])]
	out := m.(*v3discoverypb.DiscoveryResponse)
	out.TypeUrl, out.VersionInfo, out.Nonce, out.Resources = r.TypeUrl, r.VersionInfo, r.Nonce, r.Resources
	return nil
}

type verifADSStream struct {
	id     int
	in     chan int // index of the response to deliver; -1 breaks the stream
	broken bool
	ctx    context.Context
}

func (s *verifADSStream) Send(b []byte) error {
	if s.broken {
		return errors.New("stream broken")
	}
	verifSent = append(verifSent, verifSentReq{req: verifLastMarshalled, stream: s.id})
	return nil
}

func (s *verifADSStream) Recv() ([]byte, error) {
	verifAssert(!verifProcessing, "no response is read until all watchers have finished processing the previous one")
	var i int
	select {
	case i = <-s.in:
	case <-s.ctx.Done(): // the stream's context ends when the ADS stream is stopped
		return nil, s.ctx.Err()
	}
	if i < 0 {
		s.broken = true
		return nil, errors.New("stream broken")
	}
	return []byte{byte(i)}, nil
}

type verifADSTransport struct{ streams []*verifADSStream }

func (t *verifADSTransport) NewStream(ctx context.Context, _ string) (clients.Stream, error) {
	s := &verifADSStream{id: len(t.streams), in: make(chan int, 1), ctx: ctx}
	t.streams = append(t.streams, s)
	return s, nil
}
func (t *verifADSTransport) Close() {}

type verifADSHandler struct {
	nackNext, finishNow bool
	streamErrors        int
}

func (h *verifADSHandler) onStreamError(error)                { h.streamErrors++ }
func (h *verifADSHandler) onWatchExpiry(ResourceType, string) {}
func (h *verifADSHandler) onResponse(r response, onDone func()) ([]string, error) {
	verifProcessing = true
	verifPendingDone = func() { verifProcessing = false; onDone() }
	if h.finishNow {
		verifPendingDone()
		verifPendingDone = nil
	}
	if h.nackNext {
		return []string{"x", "y"}, errors.New("invalid resource")
	}
	return []string{"x", "y"}, nil
}

var verifTypes = [...]ResourceType{{TypeURL: "type.googleapis.com/A", TypeName: "A"}, {TypeURL: "type.googleapis.com/B", TypeName: "B"}}
var verifNames = [...]string{"x", "y"}

var verifC42Events, verifC42Types, verifC42Names = 4, 2, 2

// one resource type and one name, six events: reaches subscribe / response / unsubscribe / stream restart / subscribe
func verifH_C42_ads_single() {
	verifC42Events, verifC42Types, verifC42Names = 6, 1, 1
	verifH_C42_ads()
}

// thorough only: five events
//
//verif:thoroughonly verifH_C42_ads5
func verifH_C42_ads5() {
	verifC42Events = 5
	verifH_C42_ads()
}

func verifH_C42_ads() {
	verifLastMarshalled, verifSent, verifResponses, verifPendingDone, verifProcessing = nil, nil, nil, nil, false
	tr := &verifADSTransport{}
	h := &verifADSHandler{}
	node := &v3corepb.Node{Id: "node"}
	s := newADSStreamImpl(adsStreamOpts{transport: tr, eventHandler: h, backoff: func(int) time.Duration { return 0 }, nodeProto: node, watchExpiryTimeout: time.Hour})

	// ghost: what the property mentions
	subscribed := [2]map[string]bool{{}, {}}
	known := [2]bool{}
	accepted := [2]string{}    // version of the last accepted response per type (survives stream restarts)
	nonce := [2]string{}       // nonce of the latest response per type on the current stream
	checked := 0               // requests already judged
	curStream := -1
	seq := 0
	typeOf := func(url string) int {
		if url == verifTypes[0].TypeURL {
			return 0
		}
		return 1
	}
	// expectations for the requests caused by the latest event, in order
	type expect struct {
		typ            int
		version, nonce string
		nack           bool
	}
	var expects []expect
	anyOrder := false // after a stream restart the per-type requests come in map order

	var step func(i int)
	step = func(i int) {
		// ---- quiescent: judge the requests sent since the last event ----
		if len(tr.streams)-1 != curStream {
			// a new stream was created: nonces are forgotten, every type with subscriptions is requested again
			curStream = len(tr.streams) - 1
		}
		newReqs := verifSent[checked:]
		checked = len(verifSent)
		firstOnStream := map[int]bool{}
		for j, r := range verifSent {
			if !firstOnStream[r.stream] {
				firstOnStream[r.stream] = true
				verifAssert(r.req.Node == node, "the first request on every stream carries the node identity")
			} else {
				verifAssert(r.req.Node == nil, "later requests on a stream do not repeat the node")
			}
			_ = j
		}
		verifAssert(len(newReqs) == len(expects), "exactly the expected requests are sent (one per subscription change, one per response, one per subscribed type on a new stream)")
		used := make([]bool, len(expects))
		for k, r := range newReqs {
			t := typeOf(r.req.TypeUrl)
			e := -1
			if anyOrder {
				for x := range expects {
					if !used[x] && expects[x].typ == t {
						e = x
					}
				}
			} else if expects[k].typ == t {
				e = k
			}
			verifAssert(e >= 0, "the request is for the expected resource type")
			used[e] = true
			verifAssert(r.stream == curStream, "requests go out on the current stream")
			verifAssert(r.req.VersionInfo == expects[e].version, "a request carries the version of the last accepted response of its type (a NACK: the previously accepted version)")
			verifAssert(r.req.ResponseNonce == expects[e].nonce, "and the nonce of the latest response of its type on the current stream (empty on a new stream)")
			verifAssert((r.req.ErrorDetail != nil) == expects[e].nack, "a NACK, and only a NACK, carries an error detail")
			got := append([]string{}, r.req.ResourceNames...)
			sort.Strings(got)
			var want []string
			for _, n := range verifNames {
				if subscribed[t][n] {
					want = append(want, n)
				}
			}
			verifAssert(len(got) == len(want), "a request lists exactly the currently subscribed names")
			for x := range want {
				verifAssert(got[x] == want[x], "a request lists exactly the currently subscribed names")
			}
		}
		expects, anyOrder = nil, false
		if i == verifC42Events {
			s.Stop()
			verifCover("done")
			return
		}
		// ---- next event ----
		switch verifChoice("event", 5) {
		case 0: // subscribe
			t, n := verifChoice("type", verifC42Types), verifNames[verifChoice("name", verifC42Names)]
			verifAssume(!subscribed[t][n])
			subscribed[t][n], known[t] = true, true
			s.subscribe(verifTypes[t], n)
			expects = append(expects, expect{typ: t, version: accepted[t], nonce: nonce[t]})
			verifCover("subscribed")
		case 1: // unsubscribe
			t, n := verifChoice("type", verifC42Types), verifNames[verifChoice("name", verifC42Names)]
			verifAssume(subscribed[t][n])
			delete(subscribed[t], n)
			s.unsubscribe(verifTypes[t], n)
			expects = append(expects, expect{typ: t, version: accepted[t], nonce: nonce[t]})
			verifCover("unsubscribed")
		case 2: // the server sends a response
			t := verifChoice("type", verifC42Types)
			verifAssume(curStream >= 0 && !verifProcessing && known[t]) // responses for a type never subscribed to are ignored
			seq++
			v, nn := "v"+string(rune('0'+seq)), "n"+string(rune('0'+seq))
			h.nackNext, h.finishNow = verifBool("client-rejects-the-response"), verifBool("watchers-finish-at-once")
			verifResponses = append(verifResponses, &v3discoverypb.DiscoveryResponse{TypeUrl: verifTypes[t].TypeURL, VersionInfo: v, Nonce: nn})
			prev := accepted[t]
			nonce[t] = nn
			if h.nackNext {
				expects = append(expects, expect{typ: t, version: prev, nonce: nn, nack: true})
				verifCover("nack")
			} else {
				accepted[t] = v
				expects = append(expects, expect{typ: t, version: v, nonce: nn})
				verifCover("ack")
			}
			tr.streams[curStream].in <- len(verifResponses) - 1
		case 3: // the watchers finish processing
			verifAssume(verifPendingDone != nil)
			verifPendingDone()
			verifPendingDone = nil
			verifCover("processing-finished")
		case 4: // the stream breaks; a new one is created
			verifAssume(curStream >= 0 && !verifProcessing)
			tr.streams[curStream].in <- -1
			nonce = [2]string{}
			for t := 0; t < 2; t++ {
				if len(subscribed[t]) > 0 {
					expects = append(expects, expect{typ: t, version: accepted[t], nonce: ""})
				}
			}
			anyOrder = true
			verifCover("stream-restarted")
		}
		verifAtQuiescence(func() { step(i + 1) })
	}
	verifAtQuiescence(func() { step(0) })
}
