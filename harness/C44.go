//go:build verif

// GENERATED from C43.go by tools/gen_c44.sh -- C44 / C43: xDS watchers see the latest valid resource and correct errors; management-server fallback follows gRFC A71.
// (harness/C44.go is generated from this file by tools/gen_c44.sh: same harness, entry names renamed)
//
//verif:pkg internal/xds/clients/xdsclient
//verif:bound loop=64 steps=8000000 preempt=0 paths=1500000
//verif:stub (*google.golang.org/grpc/internal/xds/clients/xdsclient.xdsChannel).subscribe => verifStubChanSubscribe
//verif:stub (*google.golang.org/grpc/internal/xds/clients/xdsclient.xdsChannel).unsubscribe => verifStubChanUnsubscribe
//verif:noop (*google.golang.org/grpc/internal/grpclog.PrefixLogger).V
//verif:noop (*google.golang.org/grpc/internal/grpclog.PrefixLogger).Infof
//verif:noop (*google.golang.org/grpc/internal/grpclog.PrefixLogger).Warningf
//verif:noop (*google.golang.org/grpc/internal/grpclog.PrefixLogger).Errorf
//verif:noreplay stubbed channel and quiescence-driven event sequencing: witnesses are re-executed deterministically in the engine
//verif:outside the xdsChannel below the authority (ADS stream: C42; resource decoding and validation are reflection-driven and replaced by already-decoded updates: each update names a resource as valid with content 1 or 2, or as rejected with error e1 or e2, or omits it); one authority with two management servers (three in one entry), one resource type, 2 resource names, 2 watchers; 3 events (quick) / 4 (thorough), each processed to quiescence before the next; watcher callbacks complete at once
package xdsclient

import (
	"context"
	"errors"

	"google.golang.org/grpc/internal/xds/clients"
	"google.golang.org/grpc/internal/xds/clients/internal/syncutil"
	"google.golang.org/grpc/internal/xds/clients/xdsclient/internal/xdsresource"
)

type verifData struct{ id int }

func (d verifData) Equal(o ResourceData) bool { x, ok := o.(verifData); return ok && x.id == d.id }
func (d verifData) Bytes() []byte             { return []byte{byte(d.id)} }

type verifSubOp struct {
	ch   *xdsChannel
	sub  bool
	name string
}

var verifSubLog []verifSubOp

func verifStubChanSubscribe(xc *xdsChannel, typ ResourceType, name string) {
	verifSubLog = append(verifSubLog, verifSubOp{xc, true, name})
}
func verifStubChanUnsubscribe(xc *xdsChannel, typ ResourceType, name string) {
	verifSubLog = append(verifSubLog, verifSubOp{xc, false, name})
}

type verifWatcher struct {
	id     int
	events []string
}

func verifErrTag(err error) string {
	switch xdsresource.ErrType(err) {
	case xdsresource.ErrorTypeConnection:
		return "conn"
	case xdsresource.ErrorTypeResourceNotFound:
		return "notfound"
	}
	return err.Error()
}

func (w *verifWatcher) ResourceChanged(d ResourceData, done func()) {
	w.events = append(w.events, "changed:"+string(rune('0'+d.(verifData).id)))
	done()
}
func (w *verifWatcher) ResourceError(err error, done func()) {
	w.events = append(w.events, "reserr:"+verifErrTag(err))
	done()
}
func (w *verifWatcher) AmbientError(err error, done func()) {
	w.events = append(w.events, "amberr:"+verifErrTag(err))
	done()
}

// ghost of one watched resource: only what the properties mention
type verifRes struct {
	cache   int    // content of the accepted resource held for the watchers; 0 = none
	errText string // the rejection currently in force ("" = none)
	status  int    // 0 requested (nothing received yet), 1 accepted, 2 rejected, 3 does not exist
	subs    map[int]bool
}

var verifResNames = [...]string{"x", "y"}

var verifAuthEvents, verifAuthNames, verifAuthWatchers, verifAuthServers = 3, 2, 2, 2

// three management servers, one resource, one watcher, five events: reaches fallback over two levels and a revert
// from the last server straight to the primary
func verifH_C44_authority_3servers() {
	verifAuthEvents, verifAuthNames, verifAuthWatchers, verifAuthServers = 5, 1, 1, 3
	verifH_C44_authority()
}

// one resource name and one watcher, five events: reaches accept / reject / identical re-delivery, and
// fallback / revert / late update from the lower-priority server
func verifH_C44_authority_single() {
	verifAuthEvents, verifAuthNames, verifAuthWatchers = 5, 1, 1
	verifH_C44_authority()
}

// thorough only: four events
//
//verif:thoroughonly verifH_C44_authority4
func verifH_C44_authority4() {
	verifAuthEvents = 4
	verifH_C44_authority()
}

func verifH_C44_authority() {
	verifSubLog = nil
	allRequired := verifBool("type-requires-all-resources-in-every-response")
	ignoreDeletion := verifBool("servers-support-ignore_resource_deletion")
	typ := ResourceType{TypeURL: "type.googleapis.com/T", TypeName: "T", AllResourcesRequiredInSotW: allRequired}
	var feat ServerFeature
	if ignoreDeletion {
		feat = ServerFeatureIgnoreResourceDeletion
	}
	servers := []ServerConfig{
		{ServerIdentifier: clients.ServerIdentifier{ServerURI: "s0-primary"}, ServerFeature: feat},
		{ServerIdentifier: clients.ServerIdentifier{ServerURI: "s1-fallback"}, ServerFeature: feat},
		{ServerIdentifier: clients.ServerIdentifier{ServerURI: "s2-fallback"}, ServerFeature: feat},
	}[:verifAuthServers]
	nsrv := verifAuthServers
	var chans [3]*xdsChannel
	var opened, cleaned [3]int
	getChannel := func(sc *ServerConfig, _ *authority) (*xdsChannel, func(), error) {
		s := int(sc.ServerIdentifier.ServerURI[1] - '0')
		ch := &xdsChannel{}
		chans[s] = ch
		opened[s]++
		return ch, func() { cleaned[s]++ }, nil
	}
	ctx, cancel := context.WithCancel(context.Background())
	a := newAuthority(authorityBuildOptions{serverConfigs: servers, name: "auth", serializer: syncutil.NewCallbackSerializer(ctx), getChannelForADS: getChannel})

	// ---- ghost ----
	res := map[string]*verifRes{}
	watching := [2]string{} // resource watched by watcher i ("" = not watching)
	cancels := [2]func(){}
	ws := [2]*verifWatcher{{id: 0}, {id: 1}}
	expect := [2][]string{}
	active := -1
	chanOpen := [3]bool{}
	wantOpened, wantCleaned := [3]int{}, [3]int{}
	subscribed := [3]map[string]bool{{}, {}, {}} // ghost: names subscribed on each server
	actualSubs := [3]map[string]bool{{}, {}, {}} // as observed from the channel calls
	subSeen := 0
	onDone, wantDone := 0, 0
	toAll := func(name, ev string) {
		for i := range watching {
			if watching[i] == name {
				expect[i] = append(expect[i], ev)
			}
		}
	}
	closeServer := func(s int) {
		if chanOpen[s] {
			chanOpen[s] = false
			wantCleaned[s]++
		}
	}

	var step func(i int)
	step = func(i int) {
		// ---- quiescent: compare with the ghost ----
		for ; subSeen < len(verifSubLog); subSeen++ {
			op := verifSubLog[subSeen]
			s := 0
			for k := 1; k < nsrv; k++ {
				if op.ch == chans[k] && chans[k] != nil {
					s = k
				}
			}
			if op.sub {
				verifAssert(!actualSubs[s][op.name], "a resource is not subscribed twice on one server")
				actualSubs[s][op.name] = true
			} else {
				delete(actualSubs[s], op.name)
			}
		}
		for s := 0; s < nsrv; s++ {
			for _, n := range verifResNames {
				verifAssert(actualSubs[s][n] == subscribed[s][n], "a resource is subscribed on exactly the servers in use for it, and unsubscribed after all its watchers are removed")
			}
			verifAssert(opened[s] == wantOpened[s], "a management-server channel is acquired only for the primary on the first watch and for a fallback server on fallback")
			verifAssert(cleaned[s] == wantCleaned[s], "lower-priority servers are released on reverting to a higher one, and every server once nothing is watched")
		}
		wantActive := (*xdsChannelWithConfig)(nil)
		if active >= 0 {
			wantActive = a.xdsChannelConfigs[active]
		}
		verifAssert(a.activeXDSChannel == wantActive, "the active management server is the one the fallback rules prescribe")
		for w := range ws {
			verifAssert(len(ws[w].events) == len(expect[w]), "a watcher receives exactly the callbacks the event calls for")
			for k := range expect[w] {
				verifAssert(ws[w].events[k] == expect[w][k], "watcher callback kind and content")
			}
			ws[w].events, expect[w] = nil, nil
		}
		verifAssert(onDone == wantDone, "processing of an update completes exactly once, after all watchers are done")
		if i == verifAuthEvents {
			cancel()
			a.close()
			verifCover("done")
			return
		}
		// ---- next event ----
		switch verifChoice("event", 5) {
		case 0: // a new watcher
			w, n := verifChoice("watcher", verifAuthWatchers), verifResNames[verifChoice("resource", verifAuthNames)]
			verifAssume(watching[w] == "")
			if active < 0 {
				active, chanOpen[0] = 0, true
				wantOpened[0]++
			}
			r := res[n]
			if r == nil {
				r = &verifRes{subs: map[int]bool{active: true}}
				res[n] = r
				subscribed[active][n] = true
			}
			watching[w] = n
			if r.cache != 0 {
				expect[w] = append(expect[w], "changed:"+string(rune('0'+r.cache)))
			}
			if r.status == 2 {
				if r.cache == 0 {
					expect[w] = append(expect[w], "reserr:"+r.errText)
				} else {
					expect[w] = append(expect[w], "amberr:"+r.errText)
				}
			}
			if r.status == 3 {
				expect[w] = append(expect[w], "reserr:notfound")
			}
			cancels[w] = a.watchResource(typ, n, ws[w])
			verifCover("watch")
		case 1: // a watch is cancelled
			w := verifChoice("watcher", verifAuthWatchers)
			n := watching[w]
			verifAssume(n != "")
			watching[w] = ""
			if watching[1-w] != n {
				for s := range res[n].subs {
					delete(subscribed[s], n)
				}
				delete(res, n)
				if len(res) == 0 {
					for k := 0; k < nsrv; k++ {
						closeServer(k)
					}
					active = -1
				}
			}
			cancels[w]()
			cancels[w]() // idempotent
			verifCover("unwatch")
		case 2: // an update from a management server
			s := verifChoice("from-server", nsrv)
			verifAssume(chans[s] != nil) // the server has been contacted at some point
			updates := map[string]dataAndErrTuple{}
			md := xdsresource.UpdateMetadata{Version: "v"}
			process := active >= 0 && s <= active
			if process && s < active {
				// a higher-priority server delivers: revert to it, drop the lower ones
				for t := s + 1; t < nsrv; t++ {
					for _, r := range res {
						delete(r.subs, t)
					}
					subscribed[t] = map[string]bool{}
					closeServer(t)
				}
				active = s
				verifCover("reverted-to-primary")
			}
			if !process && active >= 0 {
				verifCover("update-from-lower-priority-server-ignored")
			}
			for _, n := range verifResNames[:verifAuthNames] {
				switch verifChoice("resource-in-update", 3) {
				case 1: // valid, content 1 or 2
					id := 1
					if verifBool("content-2") {
						id = 2
					}
					updates[n] = dataAndErrTuple{Resource: verifData{id}}
					if r := res[n]; process && r != nil {
						if r.cache == 0 || r.cache != id || r.errText != "" {
							toAll(n, "changed:"+string(rune('0'+id)))
							r.cache = id
						} else {
							verifCover("identical-update-suppressed")
						}
						r.errText, r.status = "", 1
					}
				case 2: // rejected by validation
					e := "e1"
					if verifBool("error-e2") {
						e = "e2"
					}
					updates[n] = dataAndErrTuple{Err: errors.New(e)}
					md.ErrState = &xdsresource.UpdateErrorMetadata{Version: "v", Err: errors.New(e)}
					if r := res[n]; process && r != nil {
						if r.errText != e {
							if r.cache == 0 {
								toAll(n, "reserr:"+e)
							} else {
								toAll(n, "amberr:"+e)
							}
						}
						r.errText, r.status = e, 2
					}
				}
			}
			if process && allRequired {
				for _, n := range verifResNames {
					r := res[n]
					if _, in := updates[n]; r == nil || in || r.cache == 0 || r.status == 3 {
						continue
					}
					if ignoreDeletion {
						verifCover("deletion-ignored")
						continue
					}
					r.cache, r.errText, r.status = 0, "", 3
					toAll(n, "reserr:notfound")
					verifCover("removed-from-state-of-the-world-response")
				}
			}
			if process {
				wantDone++
			}
			a.adsResourceUpdate(&servers[s], typ, updates, md, func() { onDone++ })
		case 3: // the watch timer of a resource expires: it does not exist
			n := verifResNames[verifChoice("resource", verifAuthNames)]
			if r := res[n]; r != nil {
				r.cache, r.errText, r.status = 0, "", 3
				toAll(n, "reserr:notfound")
				verifCover("does-not-exist")
			}
			a.adsResourceDoesNotExist(typ, n)
		case 4: // the ADS stream to a server fails
			s := verifChoice("failed-server", nsrv)
			verifAssume(chanOpen[s])
			afterRecv := verifBool("after-a-response-was-received")
			var err error = errors.New("stream failed")
			if afterRecv {
				err = xdsresource.NewError(xdsresource.ErrTypeStreamFailedAfterRecv, "stream failed")
			}
			if !afterRecv {
				waiting := false
				for _, r := range res {
					if r.status == 0 {
						waiting = true
					}
				}
				fellBack := false
				if waiting {
					for t := s + 1; t < nsrv && !fellBack; t++ {
						if !chanOpen[t] {
							chanOpen[t], fellBack, active = true, true, t
							wantOpened[t]++
							for n, r := range res {
								r.subs[t] = true
								subscribed[t][n] = true
							}
							verifCover("fell-back")
						}
					}
				}
				if !fellBack {
					for n, r := range res {
						if r.cache == 0 {
							toAll(n, "reserr:conn")
						} else {
							toAll(n, "amberr:conn")
						}
					}
					verifCover("connectivity-error-reported")
				}
			}
			a.adsStreamFailure(&servers[s], err)
		}
		verifAtQuiescence(func() { step(i + 1) })
	}
	verifAtQuiescence(func() { step(0) })
}
