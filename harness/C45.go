//go:build verif

// C45: accepted xDS endpoint resources satisfy the documented invariants (parseEDSRespProto on constructed protos).
//verif:pkg internal/xds/xdsclient/xdsresource
//verif:bound loop=64 steps=8000000 paths=600000
//verif:noop google.golang.org/grpc/internal/pretty.ToJSON
//verif:outside "any bytes": protobuf wire decoding is reflection-driven and not encodable, so resources are constructed as Go values (every field the validator reads is symbolic or chosen per path); Listener, RouteConfiguration and Cluster validation (not executed by this check); endpoint metadata; more than 3 localities x 2 endpoints; priorities outside {0,1,2,5}
package xdsresource

import (
	"math"

	v3corepb "github.com/envoyproxy/go-control-plane/envoy/config/core/v3"
	v3endpointpb "github.com/envoyproxy/go-control-plane/envoy/config/endpoint/v3"
	v3typepb "github.com/envoyproxy/go-control-plane/envoy/type/v3"
	"google.golang.org/protobuf/types/known/wrapperspb"
)

var verifHosts = [...]string{"10.0.0.1", "10.0.0.2", "10.0.0.3"}
var verifZones = [...]string{"z1", "z2"}
var verifPrios = [...]uint32{0, 1, 2, 5}

var verifMaxLoc = 2

//verif:thoroughonly verifH_C45_eds3
func verifH_C45_eds3() {
	verifMaxLoc = 3
	verifH_C45_eds()
}

func verifH_C45_eds() {
	nl := 1 + verifChoice("localities", verifMaxLoc)
	cla := &v3endpointpb.ClusterLoadAssignment{ClusterName: "c"}
	type loc struct {
		zone   string
		prio   uint32
		weight uint32
		eps    []string
		epw    []uint32
		epwSet []bool
		noID   bool
	}
	var locs []loc
	for i := 0; i < nl; i++ {
		l := loc{zone: verifZones[verifChoice("zone", 2)], prio: verifPrios[verifChoice("priority", 3+verifMaxLoc-2)], weight: verifUint32("locality-weight")}
		l.noID = i == 0 && verifBool("locality-without-id")
		ne := 1
		if i == nl-1 { // the last locality may have two endpoints
			ne = 1 + verifChoice("endpoints", 2)
		}
		le := &v3endpointpb.LocalityLbEndpoints{Priority: l.prio, LoadBalancingWeight: &wrapperspb.UInt32Value{Value: l.weight}}
		if !l.noID {
			le.Locality = &v3corepb.Locality{Zone: l.zone}
		}
		for j := 0; j < ne; j++ {
			host := verifHosts[verifChoice("host", 2)]
			w := verifUint32("endpoint-weight")
			set := j > 0 || verifBool("endpoint-weight-set")
			l.eps, l.epw, l.epwSet = append(l.eps, host+":80"), append(l.epw, w), append(l.epwSet, set)
			ep := &v3endpointpb.LbEndpoint{HostIdentifier: &v3endpointpb.LbEndpoint_Endpoint{Endpoint: &v3endpointpb.Endpoint{
				Address: &v3corepb.Address{Address: &v3corepb.Address_SocketAddress{SocketAddress: &v3corepb.SocketAddress{
					Address: host, PortSpecifier: &v3corepb.SocketAddress_PortValue{PortValue: 80}}}}}}}
			if set {
				ep.LoadBalancingWeight = &wrapperspb.UInt32Value{Value: w}
			}
			le.LbEndpoints = append(le.LbEndpoints, ep)
		}
		cla.Endpoints = append(cla.Endpoints, le)
		locs = append(locs, l)
	}
	if nl == 1 && verifBool("drop-policy") {
		den := v3typepb.FractionalPercent_DenominatorType(verifChoice("denominator", 4)) // three valid values and one unknown
		cla.Policy = &v3endpointpb.ClusterLoadAssignment_Policy{DropOverloads: []*v3endpointpb.ClusterLoadAssignment_Policy_DropOverload{
			{Category: "d", DropPercentage: &v3typepb.FractionalPercent{Numerator: verifUint32("numerator"), Denominator: den}}}}
	}
	u, err := parseEDSRespProto(cla)
	u2, err2 := parseEDSRespProto(cla)
	verifAssert((err == nil) == (err2 == nil) && len(u.Localities) == len(u2.Localities), "the same answer every time")
	if err != nil {
		verifCover("rejected")
		return
	}
	// invariants of an accepted update
	prios := map[uint32]bool{}
	sum := map[uint32]uint64{}
	seenAddr := map[string]bool{}
	seenLoc := map[string]bool{}
	for _, l := range u.Localities {
		verifAssert(l.Weight != 0, "zero-weight localities are dropped")
		prios[l.Priority] = true
		sum[l.Priority] += uint64(l.Weight)
		key := l.ID.Zone + "/" + string(rune('0'+l.Priority))
		verifAssert(!seenLoc[key], "no (locality, priority) pair repeats")
		seenLoc[key] = true
		var es uint64
		for _, e := range l.Endpoints {
			verifAssert(e.Weight != 0, "endpoint weights are non-zero")
			es += uint64(e.Weight)
			for _, a := range e.ResolverEndpoint.Addresses {
				verifAssert(!seenAddr[a.Addr], "no address repeats")
				seenAddr[a.Addr] = true
			}
		}
		verifAssert(es <= math.MaxUint32, "per-locality endpoint weight sum fits in uint32")
	}
	for p, s := range sum {
		verifAssert(s <= math.MaxUint32, "per-priority locality weight sum fits in uint32")
		_ = p
	}
	for i := 0; i < len(prios); i++ {
		verifAssert(prios[uint32(i)], "endpoint priorities are contiguous from 0")
	}
	for _, d := range u.Drops {
		verifAssert(d.Denominator == 100 || d.Denominator == 10000 || d.Denominator == 1000000, "drop denominators are one of the three defined values")
	}
	// completeness: every non-zero-weight input locality is present
	want := 0
	for _, l := range locs {
		verifAssert(!l.noID, "a locality without an id is rejected")
		if l.weight != 0 {
			want++
		}
	}
	verifAssert(len(u.Localities) == want, "every locality with a non-zero weight is kept, in order")
	if len(prios) >= 2 {
		verifCover("two-priorities")
	}
	verifCover("accepted")
}
