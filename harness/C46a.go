//go:build verif

// C46 (part a): virtual-host domain matching, runtime-fraction matching, composite route matching.
//verif:pkg internal/xds/xdsclient/xdsresource
//verif:bound loop=40 steps=4000000
//verif:assume domains are valid xDS domains (non-empty, '*' only as the first or the last character) as the RDS validator guarantees
//verif:outside more than 2 virtual hosts x 2 domains, domains/hosts longer than 3 bytes; regex path/header matchers (regexp is not encodable)
package xdsresource

import (
	"google.golang.org/grpc/internal/xds/matcher"
	"google.golang.org/grpc/metadata"
)

// reference classification: 4 exact, 3 suffix, 2 prefix, 1 universal, 0 invalid
func verifDomType(d string) int {
	n := len(d)
	if n == 0 {
		return 0
	}
	stars := 0
	for i := 0; i < n; i++ {
		if d[i] == '*' {
			stars++
		}
	}
	if stars == 0 {
		return 4
	}
	if stars > 1 {
		return 0
	}
	if n == 1 {
		return 1
	}
	if d[0] == '*' {
		return 3
	}
	if d[n-1] == '*' {
		return 2
	}
	return 0
}

func verifDomMatches(d, host string, typ int) bool {
	switch typ {
	case 1:
		return true
	case 4:
		return d == host
	case 3:
		p := d[1:]
		return len(host) >= len(p) && host[len(host)-len(p):] == p
	case 2:
		p := d[:len(d)-1]
		return len(host) >= len(p) && host[:len(p)] == p
	}
	return false
}

func verifH_C46_vhost() {
	// 2 virtual hosts x 1 domain, or 1 virtual host x 2 domains
	if verifChoice("shape", 2) == 0 {
		verifVhost(2, 1)
	} else {
		verifVhost(1, 2)
	}
}

//verif:thoroughonly verifH_C46_vhost22
func verifH_C46_vhost22() { verifVhost(2, 2) }

func verifVhost(nv, nd int) {
	host := verifString("host", 3)
	vhs := make([]*VirtualHost, nv)
	bestI, bestT, bestL := -1, 0, 0
	for i := 0; i < nv; i++ {
		vh := &VirtualHost{}
		for j := 0; j < nd; j++ {
			d := verifString("dom", 3)
			t := verifDomType(d)
			verifAssume(t != 0)
			vh.Domains = append(vh.Domains, d)
			if verifDomMatches(d, host, t) && (t > bestT || t == bestT && len(d) > bestL) {
				bestI, bestT, bestL = i, t, len(d)
			}
		}
		vhs[i] = vh
	}
	got := FindBestMatchingVirtualHost(host, vhs)
	if bestI < 0 {
		verifAssert(got == nil, "no domain matches: no virtual host")
		verifCover("none")
	} else {
		verifAssert(got == vhs[bestI], "best match: exact > suffix > prefix > universal, longer pattern first, first wins ties")
		verifCover("some")
	}
}

// a runtime fraction of f per million matches exactly the draws below f
func verifH_C46_fraction() {
	f := verifUint32("fraction")
	fm := newFractionMatcher(f)
	saved := RandInt64n
	var draw int64
	RandInt64n = func(n int64) int64 {
		draw = verifInt64("draw")
		verifAssume(draw >= 0 && draw < n)
		return draw
	}
	got := fm.match()
	RandInt64n = saved
	verifAssertKF(got == (draw < int64(f)), "fraction f matches exactly the f draws below f (0 never matches)",
		"F5-fraction-inclusive", draw == int64(f))
	if got {
		verifCover("match")
	} else {
		verifCover("nomatch")
	}
}

// composite matcher = path AND every header matcher AND fraction
func verifH_C46_composite() {
	path := verifString("path", 3)
	prefix := verifString("prefix", 2)
	hv := verifString("hv", 2)
	want := verifString("want", 2)
	present := verifBool("present")
	var pm pathMatcher
	exact := verifBool("exact")
	if exact {
		pm = newPathExactMatcher(prefix, false)
	} else {
		pm = newPathPrefixMatcher(prefix, false)
	}
	hm := matcher.NewHeaderStringMatcher("k", matcher.NewExactStringMatcher(want, false), false)
	hp := matcher.NewHeaderPresentMatcher("p", true, false)
	f := verifUint32("fraction")
	verifAssume(f <= 1000000)
	saved := RandInt64n
	var draw int64
	RandInt64n = func(n int64) int64 {
		draw = verifInt64("draw")
		verifAssume(draw >= 0 && draw < n && draw != int64(f))
		return draw
	}
	md := metadata.MD{"k": []string{hv}}
	if present {
		md["p"] = []string{"x"}
	}
	cm := newCompositeMatcher(pm, []matcher.HeaderMatcher{hm, hp}, newFractionMatcher(f))
	got := cm.Match(path, md)
	RandInt64n = saved
	var pOK bool
	if exact {
		pOK = path == prefix
	} else {
		pOK = len(path) >= len(prefix) && path[:len(prefix)] == prefix
	}
	ref := pOK && hv == want && present
	if ref {
		verifAssert(got == (draw < int64(f)), "all matchers match: decided by the fraction draw")
		verifCover("all-match")
	} else {
		verifAssert(!got, "route does not match unless path, every header matcher and the fraction all match")
		verifCover("some-fail")
	}
}
