//go:build verif

// C46 (cluster choice and request hash): the real xdsResolver.Update -> newConfigSelector -> SelectConfig path.
//
//verif:pkg internal/xds/resolver
//verif:bound loop=64 steps=6000000 paths=600000
//verif:stub google.golang.org/grpc/internal/xds/resolver.serviceConfigJSON => verifStubSCJSON46
//verif:stub (*google.golang.org/grpc/internal/xds/xdsdepmgr.DependencyManager).SubscribeToCluster => verifStubSubscribe46
//verif:stub (*google.golang.org/grpc/internal/xds/bootstrap.Config).Node => verifStubNode46
//verif:stub math/rand/v2.Int64N => verifDrawInt64N
//verif:stub math/rand/v2.Uint64 => verifDrawUint64
//verif:stub github.com/cespare/xxhash/v2.Sum64String => verifHash46
//verif:noop (*google.golang.org/grpc/internal/grpclog.PrefixLogger).V
//verif:noop (*google.golang.org/grpc/internal/grpclog.PrefixLogger).Infof
//verif:noreplay-stubbed
//verif:outside the random source (math/rand draws are symbolic values recorded by a stub), the xxhash function (assembly; replaced by FNV-1a), JSON rendering of the service config, the dependency manager; routes with up to 3 weighted clusters of weight 1..3; hash policies: header "h" and/or channel id, with or without the terminal flag (no regex rewrite); virtual-host selection and route matching are decided by the other C46 entries
package resolver

import (
	"context"

	v3corepb "github.com/envoyproxy/go-control-plane/envoy/config/core/v3"
	"google.golang.org/grpc/internal/grpcsync"
	iresolver "google.golang.org/grpc/internal/resolver"
	iringhash "google.golang.org/grpc/internal/ringhash"
	"google.golang.org/grpc/internal/xds/balancer/clustermanager"
	"google.golang.org/grpc/internal/xds/bootstrap"
	"google.golang.org/grpc/internal/xds/xdsclient"
	"google.golang.org/grpc/internal/xds/xdsclient/xdsresource"
	"google.golang.org/grpc/internal/xds/xdsdepmgr"
	"google.golang.org/grpc/metadata"
	"google.golang.org/grpc/resolver"
	"google.golang.org/grpc/serviceconfig"
)

func verifStubSCJSON46(map[string]*clusterInfo, map[string]*clusterInfo) []byte { return nil }
func verifStubSubscribe46(*xdsdepmgr.DependencyManager, string) func()         { return func() {} }
func verifStubNode46(*bootstrap.Config) *v3corepb.Node                          { return &v3corepb.Node{Id: "node"} }

type verifDraw struct {
	n, v int64
}

var verifDraws []verifDraw
var verifRandHash uint64

func verifDrawInt64N(n int64) int64 {
	v := verifInt64("random-draw")
	verifAssume(v >= 0 && v < n)
	verifDraws = append(verifDraws, verifDraw{n, v})
	return v
}

func verifDrawUint64() uint64 {
	verifRandHash = verifUint64("random-hash")
	return verifRandHash
}

func verifHash46(s string) uint64 {
	h := uint64(14695981039346656037)
	for i := 0; i < len(s); i++ {
		h ^= uint64(s[i])
		h *= 1099511628211
	}
	return h
}

type verifXDSClient46 struct{ xdsclient.XDSClient }

func (verifXDSClient46) BootstrapConfig() *bootstrap.Config { return &bootstrap.Config{} }

type verifCC46 struct {
	resolver.ClientConn
	selector iresolver.ConfigSelector
}

func (c *verifCC46) ReportError(error) {}
func (c *verifCC46) ParseServiceConfig(string) *serviceconfig.ParseResult {
	return &serviceconfig.ParseResult{}
}
func (c *verifCC46) UpdateState(s resolver.State) error {
	c.selector = iresolver.GetConfigSelector(s)
	return nil
}

var verifClusterNames = [...]string{"A", "B", "C"}

func verifResolver46(rt *xdsresource.Route) (*xdsResolver, *verifCC46, context.CancelFunc) {
	cc := &verifCC46{}
	ctx, cancel := context.WithCancel(context.Background())
	r := &xdsResolver{cc: cc, xdsClient: verifXDSClient46{}, activeClusters: map[string]*clusterInfo{}, activePlugins: map[string]*clusterInfo{},
		serializer: grpcsync.NewCallbackSerializer(ctx), serializerCancel: cancel, channelID: 0xC0FFEE}
	r.Update(&xdsresource.XDSConfig{Listener: &xdsresource.ListenerUpdate{APIListener: &xdsresource.HTTPConnectionManagerConfig{}},
		RouteConfig: &xdsresource.RouteConfigUpdate{}, VirtualHost: &xdsresource.VirtualHost{Routes: []*xdsresource.Route{rt}}})
	return r, cc, cancel
}

// the cluster is chosen among the route's weighted clusters in proportion to their weights: every value of the
// random draw selects the cluster whose weight interval contains it
func verifH_C46_clusters() {
	verifDraws = nil
	n := 1 + verifChoice("clusters", 3)
	var ws []int64
	var wcs []xdsresource.WeightedCluster
	total := int64(0)
	allEqual := true
	for i := 0; i < n; i++ {
		w := int64(1 + verifChoice("weight", 3))
		ws = append(ws, w)
		total += w
		if w != ws[0] {
			allEqual = false
		}
		wcs = append(wcs, xdsresource.WeightedCluster{Name: verifClusterNames[i], Weight: uint32(w)})
	}
	prefix := ""
	_, cc, cancel := verifResolver46(&xdsresource.Route{Prefix: &prefix, WeightedClusters: wcs, ActionType: xdsresource.RouteActionRoute})
	verifAtQuiescence(func() {
		verifAssert(cc.selector != nil, "the update installs a config selector")
		cfg, err := cc.selector.SelectConfig(iresolver.RPCInfo{Context: context.Background(), Method: "/s/m"})
		verifAssert(err == nil, "the RPC is routed")
		got := clustermanager.PickedCluster(cfg.Context)
		verifAssert(len(verifDraws) == 1, "one random draw decides the cluster")
		d := verifDraws[0]
		want := ""
		if d.n == int64(n) && (allEqual || n == 1) && d.n != total {
			want = verifClusterNames[d.v] // a uniform draw is proportional only when all weights are equal
		} else {
			verifAssert(d.n == total, "the draw ranges over the total weight (a uniform draw over the clusters is used only when all weights are equal)")
			acc := int64(0)
			for i, w := range ws {
				acc += w
				if d.v < acc {
					want = verifClusterNames[i]
					break
				}
			}
		}
		verifAssert(got == "cluster:"+want, "each cluster is chosen by exactly weight of the total possible draws")
		if !allEqual {
			verifCover("unequal-weights")
		} else {
			verifCover("equal-weights")
		}
		cancel()
	})
}

// the request hash depends only on the configured hash-policy inputs
func verifH_C46_hash() {
	verifDraws = nil
	hdr := func(name string, terminal bool) *xdsresource.HashPolicy {
		return &xdsresource.HashPolicy{HashPolicyType: xdsresource.HashPolicyTypeHeader, HeaderName: name, Terminal: terminal}
	}
	chn := func(terminal bool) *xdsresource.HashPolicy {
		return &xdsresource.HashPolicy{HashPolicyType: xdsresource.HashPolicyTypeChannelID, Terminal: terminal}
	}
	lists := [...][]*xdsresource.HashPolicy{
		nil,
		{hdr("h", false)},
		{chn(false)},
		{hdr("h", true), chn(false)},
		{hdr("h", false), chn(false)},
		{chn(false), hdr("h", true), hdr("g", false)}, // a terminal policy that yields nothing still ends the list once a hash exists
		{hdr("h", false), hdr("g", true), chn(false)},
	}
	hps := lists[verifChoice("hash-policies", len(lists))]
	useHeader, useChannel := false, false
	for _, p := range hps {
		if p.HashPolicyType == xdsresource.HashPolicyTypeHeader && p.HeaderName == "h" {
			useHeader = true
		}
		if p.HashPolicyType == xdsresource.HashPolicyTypeChannelID {
			useChannel = true
		}
	}
	prefix := ""
	rt := &xdsresource.Route{Prefix: &prefix, WeightedClusters: []xdsresource.WeightedCluster{{Name: "A", Weight: 1}}, ActionType: xdsresource.RouteActionRoute, HashPolicies: hps}
	_, cc, cancel := verifResolver46(rt)
	verifAtQuiescence(func() {
		hv := [...]string{"", "v1", "v2"}
		mk := func(h int, other string, method string) uint64 {
			ctx := context.Background()
			kv := []string{"other", other, "g", "gv"} // header g is always present with the same value
			if h > 0 {
				kv = append(kv, "h", hv[h])
			}
			ctx = metadata.NewOutgoingContext(ctx, metadata.Pairs(kv...))
			cfg, err := cc.selector.SelectConfig(iresolver.RPCInfo{Context: ctx, Method: method})
			verifAssert(err == nil, "the RPC is routed")
			x, ok := iringhash.XDSRequestHash(cfg.Context)
			verifAssert(ok, "a request hash is attached")
			return x
		}
		h1, h2 := verifChoice("rpc1-header-h", 3), verifChoice("rpc2-header-h", 3)
		a := mk(h1, "x", "/s/m1")
		ra := verifRandHash
		b := mk(h2, "y", "/s/m2")
		rb := verifRandHash
		headerSeen1, headerSeen2 := useHeader && h1 > 0, useHeader && h2 > 0
		// reference: fold the configured inputs, in order, as gRFC A42 prescribes
		ref := func(h int, rnd uint64) uint64 {
			var hash uint64
			gen := false
			for _, p := range hps {
				var ph uint64
				g := false
				if p.HashPolicyType == xdsresource.HashPolicyTypeHeader {
					if p.HeaderName == "g" {
						ph, g = verifHash46("gv"), true
					} else if h > 0 {
						ph, g = verifHash46(hv[h]), true
					}
				} else {
					ph, g = 0xC0FFEE, true
				}
				if !g {
					// a policy that yields nothing is skipped altogether, including its terminal flag (Envoy evaluates the
					// flag against the hash accumulated so far; the property does not depend on this choice)
					continue
				}
				gen = true
				hash = (hash<<1 | hash>>63) ^ ph
				if p.Terminal && gen {
					break
				}
			}
			if !gen {
				return rnd
			}
			return hash
		}
		verifAssert(a == ref(h1, ra) && b == ref(h2, rb), "the request hash is the fold of the configured policy inputs (header value, channel id), a random value when no policy yields one")
		_, _, _, _ = useHeader, useChannel, headerSeen1, headerSeen2
		if h1 == h2 && ref(h1, 1) == ref(h1, 2) { // the configured inputs agree and yield a hash (no random fallback)
			verifAssert(a == b, "RPCs that agree on the configured inputs get the same hash, whatever else differs")
			verifCover("same-inputs-same-hash")
		}
		cancel()
	})
}
