//go:build verif

// C47 (part a): header matchers and string matchers (package internal/xds/matcher).
//verif:pkg internal/xds/matcher
//verif:bound loop=64 steps=4000000
//verif:outside regex matchers (the regexp engine is not encodable); header values longer than 2 bytes x 2 values; range-matcher inputs longer than 4 bytes; string-matcher inputs/patterns longer than 3 bytes
package matcher

import "google.golang.org/grpc/metadata"

func verifJoined(md metadata.MD) (string, bool) {
	vs, ok := md["k"]
	if !ok {
		return "", false
	}
	s := ""
	for i, v := range vs {
		if i > 0 {
			s += ","
		}
		s += v
	}
	return s, true
}

func verifHasPrefix(s, p string) bool { return len(s) >= len(p) && s[:len(p)] == p }
func verifHasSuffix(s, p string) bool { return len(s) >= len(p) && s[len(s)-len(p):] == p }
func verifContains(s, p string) bool {
	for i := 0; i+len(p) <= len(s); i++ {
		if s[i:i+len(p)] == p {
			return true
		}
	}
	return false
}

func verifMD() metadata.MD {
	md := metadata.MD{}
	switch verifChoice("nvals", 4) {
	case 0: // header absent
	case 1:
		md["k"] = []string{}
	case 2:
		md["k"] = []string{verifString("v", 2)}
	case 3:
		md["k"] = []string{verifString("v", 2), verifString("v", 2)}
	}
	return md
}

// exact / prefix / suffix / contains / present against the comma-joined value; invert only when present
func verifH_C47_header() {
	md := verifMD()
	pat := verifString("pat", 2)
	inv := verifBool("invert")
	v, ok := verifJoined(md)
	var got, ref bool
	kind := verifChoice("kind", 5)
	switch kind {
	case 0:
		got = NewHeaderExactMatcher("k", pat, inv).Match(md)
		ref = v == pat
	case 1:
		got = NewHeaderPrefixMatcher("k", pat, inv).Match(md)
		ref = verifHasPrefix(v, pat)
	case 2:
		got = NewHeaderSuffixMatcher("k", pat, inv).Match(md)
		ref = verifHasSuffix(v, pat)
	case 3:
		got = NewHeaderContainsMatcher("k", pat, inv).Match(md)
		ref = verifContains(v, pat)
	case 4:
		got = NewHeaderStringMatcher("k", NewExactStringMatcher(pat, false), inv).Match(md)
		ref = v == pat
	}
	if !ok {
		verifAssert(!got, "absent header never matches, inverted or not")
		verifCover("absent")
	} else {
		verifAssert(got == (ref != inv), "matches the comma-joined value; invert flips the result when the header is present")
		if inv {
			verifCover("inverted")
		}
		verifCover("present")
	}
}

func verifH_C47_present() {
	md := verifMD()
	want := verifBool("present")
	inv := verifBool("invert")
	got := NewHeaderPresentMatcher("k", want, inv).Match(md)
	v, ok := verifJoined(md)
	present := ok && len(v) > 0
	verifAssert(got == (present == (want != inv)), "present_match compares presence (invert flips the expectation)")
	verifCover("done")
}

// reference base-10 parser for inputs of at most 4 bytes: [+-]?[0-9]+
func verifParse(s string) (int64, bool) {
	i := 0
	neg := false
	if len(s) > 0 && (s[0] == '+' || s[0] == '-') {
		neg = s[0] == '-'
		i = 1
	}
	if i == len(s) {
		return 0, false
	}
	var n int64
	for ; i < len(s); i++ {
		if s[i] < '0' || s[i] > '9' {
			return 0, false
		}
		n = n*10 + int64(s[i]-'0')
	}
	if neg {
		n = -n
	}
	return n, true
}

func verifH_C47_range() {
	val := verifString("v", 4)
	start, end := verifInt64("start"), verifInt64("end")
	inv := verifBool("invert")
	present := verifBool("present")
	md := metadata.MD{}
	if present {
		md["k"] = []string{val}
	}
	got := NewHeaderRangeMatcher("k", start, end, inv).Match(md)
	if !present {
		verifAssert(!got, "absent header never matches the range matcher")
		verifCover("absent")
		return
	}
	n, ok := verifParse(val)
	in := ok && n >= start && n < end
	verifAssert(got == (in != inv), "range matches base-10 integers in [start, end); invert flips")
	if in {
		verifCover("in-range")
	} else if ok {
		verifCover("out-of-range")
	} else {
		verifCover("not-a-number")
	}
}

func verifFold(b byte) byte {
	if b >= 'A' && b <= 'Z' {
		return b + 32
	}
	return b
}

func verifFoldEq(a, b string) bool {
	if len(a) != len(b) {
		return false
	}
	for i := 0; i < len(a); i++ {
		if verifFold(a[i]) != verifFold(b[i]) {
			return false
		}
	}
	return true
}

func verifASCII(s string) bool {
	for i := 0; i < len(s); i++ {
		if s[i] >= 0x80 {
			return false
		}
	}
	return true
}

// ignore_case compares ASCII case-insensitively: ASCII inputs and patterns
func verifH_C47_ignorecase_ascii() {
	in := verifString("in", 3)
	pat := verifString("pat", 2)
	verifAssume(verifASCII(in) && verifASCII(pat))
	kind := verifChoice("kind", 4)
	var got, ref bool
	switch kind {
	case 0:
		got = NewExactStringMatcher(pat, true).Match(in)
		ref = verifFoldEq(in, pat)
	case 1:
		got = NewPrefixStringMatcher(pat, true).Match(in)
		ref = len(in) >= len(pat) && verifFoldEq(in[:len(pat)], pat)
	case 2:
		got = NewSuffixStringMatcher(pat, true).Match(in)
		ref = len(in) >= len(pat) && verifFoldEq(in[len(in)-len(pat):], pat)
	case 3:
		got = NewContainsStringMatcher(pat, true).Match(in)
		for i := 0; i+len(pat) <= len(in); i++ {
			if verifFoldEq(in[i:i+len(pat)], pat) {
				ref = true
			}
		}
	}
	verifAssert(got == ref, "ignore_case string matcher equals ASCII case-insensitive comparison")
	if ref {
		verifCover("match")
	} else {
		verifCover("nomatch")
	}
}

// ignore_case on inputs containing non-ASCII bytes: still ASCII-only folding (Envoy semantics)
func verifH_C47_ignorecase_unicode() {
	in := verifString("in", 3)
	pat := verifString("pat", 3)
	verifAssume(!verifASCII(in) || !verifASCII(pat))
	got := NewExactStringMatcher(pat, true).Match(in)
	verifAssert(got == verifFoldEq(in, pat), "ignore_case folds ASCII letters only")
	verifCover("done")
}
