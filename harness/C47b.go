//go:build verif

// C47 (part b): path matchers with case_insensitive (package xdsresource).
//verif:pkg internal/xds/xdsclient/xdsresource
//verif:bound loop=64 steps=4000000
//verif:outside paths and patterns longer than 3 bytes; regex path matcher
package xdsresource

func verifFoldB(b byte) byte {
	if b >= 'a' && b <= 'z' {
		return b - 32
	}
	return b
}

func verifFoldEqS(a, b string, fold bool) bool {
	if len(a) != len(b) {
		return false
	}
	for i := 0; i < len(a); i++ {
		x, y := a[i], b[i]
		if fold {
			x, y = verifFoldB(x), verifFoldB(y)
		}
		if x != y {
			return false
		}
	}
	return true
}

func verifH_C47_path() {
	p := verifString("pattern", 3)
	path := verifString("path", 3)
	ci := verifBool("case_insensitive")
	var got, ref bool
	if verifBool("exact") {
		got = newPathExactMatcher(p, ci).match(path)
		ref = verifFoldEqS(path, p, ci)
	} else {
		got = newPathPrefixMatcher(p, ci).match(path)
		ref = len(path) >= len(p) && verifFoldEqS(path[:len(p)], p, ci)
	}
	verifAssert(got == ref, "path matcher: equal (or prefixed) up to ASCII case when case_insensitive, byte-exact otherwise")
	if ref {
		verifCover("match")
	} else {
		verifCover("nomatch")
	}
}
