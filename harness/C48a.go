//go:build verif

// C48 (part a): the RBAC engine chain decides exactly as the policy semantics say.
//verif:pkg internal/xds/rbac
//verif:bound loop=64 steps=8000000 paths=200000
//verif:outside policy trees deeper than one and/or/not level over the leaves {any, header exact, url path exact, destination port, metadata, authenticated principal}; CIDR matchers and regex matchers (netip prefix parsing of symbolic text / regexp are not encoded here); more than 2 engines x 1 policy; header values and paths longer than 2 bytes; certificates without any SAN (the subject fallback formats a pkix name, whose package initialiser is not encodable)
package rbac

import (
	"context"
	"crypto/tls"
	"crypto/x509"
	"net"
	"net/url"

	v3rbacpb "github.com/envoyproxy/go-control-plane/envoy/config/rbac/v3"
	v3routepb "github.com/envoyproxy/go-control-plane/envoy/config/route/v3"
	v3matcherpb "github.com/envoyproxy/go-control-plane/envoy/type/matcher/v3"
	"google.golang.org/grpc"
	"google.golang.org/grpc/codes"
	"google.golang.org/grpc/credentials"
	"google.golang.org/grpc/metadata"
	"google.golang.org/grpc/peer"
	"google.golang.org/grpc/status"
)

type verifAddr struct{ s string }

func (a verifAddr) Network() string { return "tcp" }
func (a verifAddr) String() string  { return a.s }

type verifConn48 struct {
	net.Conn
	local net.Addr
}

func (c verifConn48) LocalAddr() net.Addr { return c.local }

type verifSTS struct{ method string }

func (s verifSTS) Method() string                  { return s.method }
func (s verifSTS) SetHeader(md metadata.MD) error  { return nil }
func (s verifSTS) SendHeader(md metadata.MD) error { return nil }
func (s verifSTS) SetTrailer(md metadata.MD) error { return nil }

// request attributes
type verifReq struct {
	path   string
	hdr    string
	hasHdr bool
	port   uint32
	tls    bool
	uris   []string
	dns    []string
}

// leaf descriptions shared by the proto builder and the reference evaluator
type verifLeaf struct {
	kind int // 0 any, 1 header exact, 2 path exact, 3 port, 4 metadata(invert), 5 authenticated(name), 6 authenticated(any)
	s    string
	n    uint32
	b    bool
}

func verifNewLeaf(principal bool) verifLeaf {
	l := verifLeaf{}
	if principal {
		l.kind = [...]int{0, 1, 2, 4, 5, 6}[verifChoice("pkind", 6)]
	} else {
		l.kind = verifChoice("kind", 5)
	}
	switch l.kind {
	case 1, 2:
		l.s = verifString("pat", 2)
	case 3:
		l.n = [...]uint32{80, 443}[verifChoice("port", 2)]
	case 4:
		l.b = verifBool("invert")
	case 5:
		l.s = [...]string{"spiffe://a/x", "spiffe://a/y", "host.b", ""}[verifChoice("name", 4)]
	}
	return l
}

func (l verifLeaf) eval(r *verifReq) bool {
	switch l.kind {
	case 0:
		return true
	case 1:
		return r.hasHdr && r.hdr == l.s
	case 2:
		return r.path == l.s
	case 3:
		return r.port == l.n
	case 4:
		return l.b
	case 6:
		return r.tls
	}
	// authenticated with a principal name: URI SANs, else DNS SANs, else subject
	if !r.tls {
		return false
	}
	if len(r.uris) > 0 {
		for _, u := range r.uris {
			if u == l.s {
				return true
			}
		}
		return false
	}
	if len(r.dns) > 0 {
		for _, d := range r.dns {
			if d == l.s {
				return true
			}
		}
		return false
	}
	return l.s == "" // no SANs: the (empty, in this harness) subject is compared
}

func verifExact(s string) *v3matcherpb.StringMatcher {
	return &v3matcherpb.StringMatcher{MatchPattern: &v3matcherpb.StringMatcher_Exact{Exact: s}}
}

func (l verifLeaf) permission() *v3rbacpb.Permission {
	switch l.kind {
	case 0:
		return &v3rbacpb.Permission{Rule: &v3rbacpb.Permission_Any{Any: true}}
	case 1:
		return &v3rbacpb.Permission{Rule: &v3rbacpb.Permission_Header{Header: &v3routepb.HeaderMatcher{Name: "k", HeaderMatchSpecifier: &v3routepb.HeaderMatcher_ExactMatch{ExactMatch: l.s}}}}
	case 2:
		return &v3rbacpb.Permission{Rule: &v3rbacpb.Permission_UrlPath{UrlPath: &v3matcherpb.PathMatcher{Rule: &v3matcherpb.PathMatcher_Path{Path: verifExact(l.s)}}}}
	case 3:
		return &v3rbacpb.Permission{Rule: &v3rbacpb.Permission_DestinationPort{DestinationPort: l.n}}
	}
	return &v3rbacpb.Permission{Rule: &v3rbacpb.Permission_Metadata{Metadata: &v3matcherpb.MetadataMatcher{Invert: l.b}}}
}

func (l verifLeaf) principal() *v3rbacpb.Principal {
	switch l.kind {
	case 0:
		return &v3rbacpb.Principal{Identifier: &v3rbacpb.Principal_Any{Any: true}}
	case 1:
		return &v3rbacpb.Principal{Identifier: &v3rbacpb.Principal_Header{Header: &v3routepb.HeaderMatcher{Name: "k", HeaderMatchSpecifier: &v3routepb.HeaderMatcher_ExactMatch{ExactMatch: l.s}}}}
	case 2:
		return &v3rbacpb.Principal{Identifier: &v3rbacpb.Principal_UrlPath{UrlPath: &v3matcherpb.PathMatcher{Rule: &v3matcherpb.PathMatcher_Path{Path: verifExact(l.s)}}}}
	case 4:
		return &v3rbacpb.Principal{Identifier: &v3rbacpb.Principal_Metadata{Metadata: &v3matcherpb.MetadataMatcher{Invert: l.b}}}
	case 5:
		return &v3rbacpb.Principal{Identifier: &v3rbacpb.Principal_Authenticated_{Authenticated: &v3rbacpb.Principal_Authenticated{PrincipalName: verifExact(l.s)}}}
	}
	return &v3rbacpb.Principal{Identifier: &v3rbacpb.Principal_Authenticated_{Authenticated: &v3rbacpb.Principal_Authenticated{}}}
}

// a tree of depth <= 1: leaf | not leaf | leaf and leaf | leaf or leaf
type verifTree struct {
	op   int // 0 leaf, 1 not, 2 and, 3 or
	a, b verifLeaf
}

func verifNewTree(principal bool) verifTree {
	t := verifTree{op: verifChoice("op", 4)}
	t.a = verifNewLeaf(principal)
	if t.op >= 2 {
		t.b = verifNewLeaf(principal)
	}
	return t
}

func (t verifTree) eval(r *verifReq) bool {
	switch t.op {
	case 1:
		return !t.a.eval(r)
	case 2:
		return t.a.eval(r) && t.b.eval(r)
	case 3:
		return t.a.eval(r) || t.b.eval(r)
	}
	return t.a.eval(r)
}

func (t verifTree) permission() *v3rbacpb.Permission {
	switch t.op {
	case 1:
		return &v3rbacpb.Permission{Rule: &v3rbacpb.Permission_NotRule{NotRule: t.a.permission()}}
	case 2:
		return &v3rbacpb.Permission{Rule: &v3rbacpb.Permission_AndRules{AndRules: &v3rbacpb.Permission_Set{Rules: []*v3rbacpb.Permission{t.a.permission(), t.b.permission()}}}}
	case 3:
		return &v3rbacpb.Permission{Rule: &v3rbacpb.Permission_OrRules{OrRules: &v3rbacpb.Permission_Set{Rules: []*v3rbacpb.Permission{t.a.permission(), t.b.permission()}}}}
	}
	return t.a.permission()
}

func (t verifTree) principal() *v3rbacpb.Principal {
	switch t.op {
	case 1:
		return &v3rbacpb.Principal{Identifier: &v3rbacpb.Principal_NotId{NotId: t.a.principal()}}
	case 2:
		return &v3rbacpb.Principal{Identifier: &v3rbacpb.Principal_AndIds{AndIds: &v3rbacpb.Principal_Set{Ids: []*v3rbacpb.Principal{t.a.principal(), t.b.principal()}}}}
	case 3:
		return &v3rbacpb.Principal{Identifier: &v3rbacpb.Principal_OrIds{OrIds: &v3rbacpb.Principal_Set{Ids: []*v3rbacpb.Principal{t.a.principal(), t.b.principal()}}}}
	}
	return t.a.principal()
}

func verifRequest() (*verifReq, context.Context) {
	r := &verifReq{path: verifString("path", 2), hasHdr: verifBool("hasHdr"), tls: verifBool("tls")}
	r.port = [...]uint32{80, 443}[verifChoice("reqport", 2)]
	md := metadata.MD{}
	if r.hasHdr {
		r.hdr = verifString("hdr", 2)
		md["k"] = []string{r.hdr}
	}
	p := &peer.Peer{Addr: verifAddr{"9.9.9.9:1"}}
	if r.tls {
		cert := &x509.Certificate{}
		switch verifChoice("sans", 3) {
		case 0:
			r.uris = []string{"spiffe://a/x"}
		case 1:
			r.uris = []string{"spiffe://a/x", "spiffe://a/y"}
		case 2:
			r.dns = []string{"host.b"}
		}
		for _, u := range r.uris {
			cert.URIs = append(cert.URIs, &url.URL{Scheme: "spiffe", Host: "a", Path: u[len("spiffe://a"):]})
		}
		cert.DNSNames = r.dns
		p.AuthInfo = credentials.TLSInfo{State: tls.ConnectionState{PeerCertificates: []*x509.Certificate{cert}}}
	}
	ctx := metadata.NewIncomingContext(context.Background(), md)
	ctx = peer.NewContext(ctx, p)
	ctx = grpc.NewContextWithServerTransportStream(ctx, verifSTS{r.path})
	local := "1.1.1.1:80"
	if r.port == 443 {
		local = "1.1.1.1:443"
	}
	getConnection = func(context.Context) net.Conn { return verifConn48{local: verifAddr{local}} }
	return r, ctx
}

// one engine, one policy: permission tree x principal leaf x action
func verifH_C48_engine_permissions() { verifEngine(verifNewTree(false), verifTree{a: verifNewLeaf(true)}) }

// one engine, one policy: permission leaf x principal tree x action
func verifH_C48_engine_principals() { verifEngine(verifTree{a: verifNewLeaf(false)}, verifNewTree(true)) }

func verifEngine(perm, prin verifTree) {
	deny := verifBool("deny")
	action := v3rbacpb.RBAC_ALLOW
	if deny {
		action = v3rbacpb.RBAC_DENY
	}
	cfg := &v3rbacpb.RBAC{Action: action, Policies: map[string]*v3rbacpb.Policy{
		"p": {Permissions: []*v3rbacpb.Permission{perm.permission()}, Principals: []*v3rbacpb.Principal{prin.principal()}}}}
	ce, err := NewChainEngine([]*v3rbacpb.RBAC{cfg}, "")
	verifAssert(err == nil, "policy accepted")
	r, ctx := verifRequest()
	got := ce.IsAuthorized(ctx)
	matches := perm.eval(r) && prin.eval(r)
	allowed := matches != deny
	if allowed {
		verifAssert(got == nil, "allowed exactly when the policy semantics say so")
		verifCover("allowed")
	} else {
		verifAssert(got != nil && status.Code(got) == codes.PermissionDenied, "rejected with PERMISSION_DENIED exactly when the policy semantics say so")
		verifCover("denied")
	}
}

// chain of a DENY engine followed by an ALLOW engine, two policies in the first
func verifH_C48_chain() {
	d1, d2, a1 := verifNewLeaf(false), verifNewLeaf(true), verifNewLeaf(false)
	anyPerm := &v3rbacpb.Permission{Rule: &v3rbacpb.Permission_Any{Any: true}}
	anyPrin := &v3rbacpb.Principal{Identifier: &v3rbacpb.Principal_Any{Any: true}}
	denyCfg := &v3rbacpb.RBAC{Action: v3rbacpb.RBAC_DENY, Policies: map[string]*v3rbacpb.Policy{
		"d1": {Permissions: []*v3rbacpb.Permission{d1.permission()}, Principals: []*v3rbacpb.Principal{anyPrin}},
		"d2": {Permissions: []*v3rbacpb.Permission{anyPerm}, Principals: []*v3rbacpb.Principal{d2.principal()}}}}
	allowCfg := &v3rbacpb.RBAC{Action: v3rbacpb.RBAC_ALLOW, Policies: map[string]*v3rbacpb.Policy{
		"a1": {Permissions: []*v3rbacpb.Permission{a1.permission()}, Principals: []*v3rbacpb.Principal{anyPrin}}}}
	ce, err := NewChainEngine([]*v3rbacpb.RBAC{denyCfg, allowCfg}, "")
	verifAssert(err == nil, "policies accepted")
	r, ctx := verifRequest()
	got := ce.IsAuthorized(ctx)
	allowed := !(d1.eval(r) || d2.eval(r)) && a1.eval(r)
	if allowed {
		verifAssert(got == nil, "chain: allowed iff no deny policy matches and some allow policy matches")
		verifCover("allowed")
	} else {
		verifAssert(got != nil && status.Code(got) == codes.PermissionDenied, "chain: rejected otherwise")
		verifCover("denied")
	}
}
