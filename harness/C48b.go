//go:build verif

// C48 (part b): the authz translator composed with the RBAC engine: deny if any deny rule matches,
// otherwise allow exactly when some allow rule matches.
//verif:pkg authz
//verif:bound loop=64 steps=8000000 paths=200000
//verif:stub (*encoding/json.Decoder).Decode => verifStubDecode
//verif:noreplay-stubbed
//verif:outside the JSON decoding of the policy text (encoding/json is reflection-based; translatePolicy is executed from the decoded struct on); the "*" wildcard (translated to a regex) and header rules; more than 2 deny and 2 allow rules with one path pattern each; principals (source) rules
package authz

import (
	"context"
	"encoding/json"
	"net"

	"google.golang.org/grpc"
	"google.golang.org/grpc/codes"
	"google.golang.org/grpc/internal/transport"
	"google.golang.org/grpc/internal/xds/rbac"
	"google.golang.org/grpc/metadata"
	gpeer "google.golang.org/grpc/peer"
	"google.golang.org/grpc/status"
)

var verifPolicy *authorizationPolicy

func verifStubDecode(d *json.Decoder, v any) error {
	*(v.(*authorizationPolicy)) = *verifPolicy
	return nil
}

type verifAddrZ struct{ s string }

func (a verifAddrZ) Network() string { return "tcp" }
func (a verifAddrZ) String() string  { return a.s }

type verifConnZ struct{ net.Conn }

func (verifConnZ) LocalAddr() net.Addr { return verifAddrZ{"1.1.1.1:80"} }

type verifSTSZ struct{ method string }

func (s verifSTSZ) Method() string                  { return s.method }
func (s verifSTSZ) SetHeader(md metadata.MD) error  { return nil }
func (s verifSTSZ) SendHeader(md metadata.MD) error { return nil }
func (s verifSTSZ) SetTrailer(md metadata.MD) error { return nil }

// a path pattern: exact, prefix* or *suffix over symbolic text
type verifPat struct {
	kind int
	s    string
}

func verifNewPat() verifPat {
	p := verifPat{kind: verifChoice("patkind", 3), s: verifString("pat", verifPatLen)}
	for i := 0; i < len(p.s); i++ {
		verifAssume(p.s[i] != '*')
	}
	if p.kind != 0 {
		verifAssume(len(p.s) >= 1) // "*" alone becomes a regex (outside)
	}
	return p
}

func (p verifPat) text() string {
	switch p.kind {
	case 1:
		return p.s + "*"
	case 2:
		return "*" + p.s
	}
	return p.s
}

func (p verifPat) matches(path string) bool {
	switch p.kind {
	case 1:
		return len(path) >= len(p.s) && path[:len(p.s)] == p.s
	case 2:
		return len(path) >= len(p.s) && path[len(path)-len(p.s):] == p.s
	}
	return path == p.s
}

var verifRuleNames = [...]string{"r", "s"}

var verifPatLen = 1

func verifH_C48_authz() {
	sh := [...][2]int{{2, 1}, {1, 2}, {0, 1}}[verifChoice("shape", 3)]
	verifAuthz(sh[0], sh[1])
}

//verif:thoroughonly verifH_C48_authz_full
func verifH_C48_authz_full() {
	verifPatLen = 2
	verifAuthz(verifChoice("ndeny", 3), 1+verifChoice("nallow", 2))
}

func verifAuthz(nd, na int) {
	pol := &authorizationPolicy{Name: "authz"}
	var denyPats, allowPats []verifPat
	dup := false
	seen := map[string]bool{}
	for i := 0; i < nd; i++ {
		name := verifRuleNames[verifChoice("dname", 2)]
		if seen["d"+name] {
			dup = true
		}
		seen["d"+name] = true
		p := verifNewPat()
		denyPats = append(denyPats, p)
		pol.DenyRules = append(pol.DenyRules, rule{Name: name, Request: request{Paths: []string{p.text()}}})
	}
	for i := 0; i < na; i++ {
		name := verifRuleNames[verifChoice("aname", 2)]
		if seen["a"+name] {
			dup = true
		}
		seen["a"+name] = true
		p := verifNewPat()
		allowPats = append(allowPats, p)
		pol.AllowRules = append(pol.AllowRules, rule{Name: name, Request: request{Paths: []string{p.text()}}})
	}
	verifPolicy = pol
	rbacs, _, err := translatePolicy("{}")
	if err != nil {
		verifAssert(dup, "a policy with distinct rule names is accepted")
		verifCover("rejected-duplicate-names")
		return
	}
	ce, err := rbac.NewChainEngine(rbacs, "authz")
	verifAssert(err == nil, "engine built")
	path := verifString("path", 2)
	ctx := metadata.NewIncomingContext(context.Background(), metadata.MD{})
	ctx = gpeer.NewContext(ctx, &gpeer.Peer{Addr: verifAddrZ{"9.9.9.9:1"}})
	ctx = grpc.NewContextWithServerTransportStream(ctx, verifSTSZ{path})
	ctx = transport.SetConnection(ctx, verifConnZ{})
	got := ce.IsAuthorized(ctx)
	denied := false
	for _, p := range denyPats {
		if p.matches(path) {
			denied = true
		}
	}
	allowedBy := false
	for _, p := range allowPats {
		if p.matches(path) {
			allowedBy = true
		}
	}
	if denied || !allowedBy {
		verifAssert(got != nil && status.Code(got) == codes.PermissionDenied, "denied if it matches any deny rule or no allow rule")
		if denied {
			verifCover("denied-by-deny-rule")
		}
		verifCover("denied")
	} else {
		verifAssert(got == nil, "allowed exactly when no deny rule and some allow rule matches")
		verifCover("allowed")
	}
}
