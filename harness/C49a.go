//go:build verif

// C49 (validation half): filter chains whose match criteria tie are rejected; the others are filed under their criteria.
//
//verif:pkg internal/xds/xdsclient/xdsresource
//verif:bound loop=64 steps=6000000 paths=600000
//verif:stub google.golang.org/grpc/internal/xds/xdsclient/xdsresource.filterChainFromProto => verifStubFilterChainFromProto
//verif:noop (*google.golang.org/grpc/grpclog.componentData).Warningf
//verif:noreplay-stubbed
//verif:outside the network filters of a chain (HTTP connection manager in an anypb.Any: reflection-driven decoding, replaced by a stub that names the chain); protobuf wire decoding of the Listener; more than 2 filter chains, each with up to 2 destination prefixes, 2 source prefixes and 2 source ports from small menus; IPv6 prefixes
package xdsresource

import (
	"net/netip"

	v3corepb "github.com/envoyproxy/go-control-plane/envoy/config/core/v3"
	v3listenerpb "github.com/envoyproxy/go-control-plane/envoy/config/listener/v3"
	"google.golang.org/grpc/internal/xds/bootstrap"
	"google.golang.org/protobuf/types/known/wrapperspb"
)

func verifStubFilterChainFromProto(fc *v3listenerpb.FilterChain, bc *bootstrap.Config, sc *bootstrap.ServerConfig) (NetworkFilterChainConfig, error) {
	return NetworkFilterChainConfig{HTTPConnMgr: &HTTPConnectionManagerConfig{RouteConfigName: fc.GetName()}}, nil
}

type verifCIDR struct {
	addr string
	bits uint32
}

var verifCIDRs = [...]verifCIDR{{"10.0.0.0", 8}, {"10.1.0.0", 16}, {"10.1.2.3", 16}} // the last one masks to 10.1.0.0/16

type verifMatch struct {
	dst, src []int // indexes into verifCIDRs; empty = unspecified
	typ      v3listenerpb.FilterChainMatch_ConnectionSourceType
	ports    []uint32
}

func verifPickList(name string, n int) []int {
	switch verifChoice(name, 4) {
	case 1:
		return []int{0}
	case 2:
		return []int{1}
	case 3:
		return []int{0, 2}
	}
	return nil
}

func verifPickMatch(tag string) verifMatch {
	m := verifMatch{dst: verifPickList(tag+"-destination-prefixes", 3), src: verifPickList(tag+"-source-prefixes", 3)}
	m.typ = v3listenerpb.FilterChainMatch_ConnectionSourceType(verifChoice(tag+"-source-type", 3))
	switch verifChoice(tag+"-source-ports", 3) {
	case 1:
		m.ports = []uint32{80}
	case 2:
		m.ports = []uint32{80, 81}
	}
	return m
}

func verifRanges(ix []int) []*v3corepb.CidrRange {
	var out []*v3corepb.CidrRange
	for _, i := range ix {
		out = append(out, &v3corepb.CidrRange{AddressPrefix: verifCIDRs[i].addr, PrefixLen: &wrapperspb.UInt32Value{Value: verifCIDRs[i].bits}})
	}
	return out
}

func (m verifMatch) proto(name string) *v3listenerpb.FilterChain {
	return &v3listenerpb.FilterChain{Name: name, FilterChainMatch: &v3listenerpb.FilterChainMatch{
		PrefixRanges: verifRanges(m.dst), SourceType: m.typ, SourcePrefixRanges: verifRanges(m.src), SourcePorts: m.ports}}
}

// the masked prefixes a list stands for ("" = unspecified)
func verifKeys(ix []int) []string {
	if len(ix) == 0 {
		return []string{""}
	}
	var out []string
	for _, i := range ix {
		if i == 0 {
			out = append(out, "10.0.0.0/8")
		} else {
			out = append(out, "10.1.0.0/16")
		}
	}
	return out
}

func verifPorts(p []uint32) []int {
	if len(p) == 0 {
		return []int{0}
	}
	var out []int
	for _, x := range p {
		out = append(out, int(x))
	}
	return out
}

func verifPrefixOf(key string) netip.Prefix {
	if key == "" {
		return netip.Prefix{}
	}
	return netip.MustParsePrefix(key)
}

func verifH_C49_validate() {
	a, b := verifPickMatch("A"), verifPickMatch("B")
	m, err := buildFilterChainMap([]*v3listenerpb.FilterChain{a.proto("A"), b.proto("B")}, nil, nil)
	// two chains tie iff some (destination prefix, source type, source prefix, source port) combination belongs to both
	tie := false
	if a.typ == b.typ {
		for _, da := range verifKeys(a.dst) {
			for _, db := range verifKeys(b.dst) {
				for _, sa := range verifKeys(a.src) {
					for _, sb := range verifKeys(b.src) {
						for _, pa := range verifPorts(a.ports) {
							for _, pb := range verifPorts(b.ports) {
								if da == db && sa == sb && pa == pb {
									tie = true
								}
							}
						}
					}
				}
			}
		}
	}
	if tie {
		verifAssert(err != nil, "configurations in which two chains would tie are rejected during validation")
		verifCover("tie-rejected")
		return
	}
	verifAssert(err == nil, "chains with distinct match criteria are accepted")
	// every combination of each chain is filed where lookup will look for it
	find := func(d, s string, typ int, port int) string {
		for _, de := range m.DstPrefixes {
			if de.Prefix != verifPrefixOf(d) {
				continue
			}
			for _, se := range de.SourceTypeArr[typ].Entries {
				if se.Prefix == verifPrefixOf(s) {
					if c, ok := se.PortMap[port]; ok && c.HTTPConnMgr != nil {
						return c.HTTPConnMgr.RouteConfigName
					}
				}
			}
		}
		return ""
	}
	for _, c := range [...]struct {
		name string
		m    verifMatch
	}{{"A", a}, {"B", b}} {
		for _, d := range verifKeys(c.m.dst) {
			for _, s := range verifKeys(c.m.src) {
				for _, p := range verifPorts(c.m.ports) {
					verifAssert(find(d, s, int(c.m.typ), p) == c.name, "every accepted chain is filed under each of its (destination prefix, source type, source prefix, source port) combinations")
				}
			}
		}
	}
	verifCover("accepted")
}
