//go:build verif

// C49 (lookup half): server filter chain selection is the most specific match.
//
//verif:pkg internal/xds/server
//verif:bound loop=64 steps=6000000 paths=600000
//verif:outside the validation half lives in another package and is decided by C49a on protos; here the NetworkFilterChainMap is built by a harness builder that groups chains exactly as buildFilterChainMap does (destination prefix, source type, source prefix, source port). Chains: 3 chains from 108 combinations of {no prefix, 10.0.0.0/8, 10.1.0.0/16} x {any, same-or-loopback, external} x {no prefix, 192.168.0.0/16, 192.168.1.0/24} x {any port, 80}; IPv4 connections with all address bytes and the port symbolic; IPv6 is outside
package server

import (
	"net/netip"

	"google.golang.org/grpc/internal/xds/xdsclient/xdsresource"
)

type verifChain struct {
	name       string
	dst, src   int // index into verifPrefixes; 0 = unspecified
	typ        int // 0 any, 1 same-or-loopback, 2 external
	port       int // 0 = any
	dstP, srcP netip.Prefix
	dstL, srcL int
}

var verifDstPrefixes = [...]string{"", "10.0.0.0/8", "10.1.0.0/16"}
var verifSrcPrefixes = [...]string{"", "192.168.0.0/16", "192.168.1.0/24"}

func verifMkChain(name string, dst, typ, src, port int) verifChain {
	c := verifChain{name: name, dst: dst, src: src, typ: typ, port: port, dstL: -1, srcL: -1}
	if dst != 0 {
		c.dstP = netip.MustParsePrefix(verifDstPrefixes[dst])
		c.dstL = c.dstP.Bits()
	}
	if src != 0 {
		c.srcP = netip.MustParsePrefix(verifSrcPrefixes[src])
		c.srcL = c.srcP.Bits()
	}
	return c
}

// groups the chains the way buildFilterChainMap does
func verifBuildMap(chains []verifChain) *xdsresource.NetworkFilterChainMap {
	m := &xdsresource.NetworkFilterChainMap{}
	for _, c := range chains {
		di := -1
		for i := range m.DstPrefixes {
			if m.DstPrefixes[i].Prefix == c.dstP {
				di = i
			}
		}
		if di < 0 {
			m.DstPrefixes = append(m.DstPrefixes, xdsresource.DestinationPrefixEntry{Prefix: c.dstP})
			di = len(m.DstPrefixes) - 1
		}
		sp := &m.DstPrefixes[di].SourceTypeArr[c.typ]
		si := -1
		for i := range sp.Entries {
			if sp.Entries[i].Prefix == c.srcP {
				si = i
			}
		}
		if si < 0 {
			sp.Entries = append(sp.Entries, xdsresource.SourcePrefixEntry{Prefix: c.srcP, PortMap: map[int]xdsresource.NetworkFilterChainConfig{}})
			si = len(sp.Entries) - 1
		}
		sp.Entries[si].PortMap[c.port] = xdsresource.NetworkFilterChainConfig{HTTPConnMgr: &xdsresource.HTTPConnectionManagerConfig{RouteConfigName: c.name}}
	}
	return m
}

func verifH_C49_lookup() {
	chains := []verifChain{
		verifMkChain("A", verifChoice("A-destination-prefix", 3), verifChoice("A-source-type", 3), 0, 0),
		verifMkChain("B", 2*verifChoice("B-destination-prefix", 2), 0, verifChoice("B-source-prefix", 3), 0),
		verifMkChain("C", 2, 2, 2, 80),
	}
	if verifBool("chain-D-same-as-C-for-any-port") {
		chains = append(chains, verifMkChain("D", 2, 2, 2, 0))
	}
	for i := range chains {
		for j := 0; j < i; j++ {
			a, b := chains[i], chains[j]
			verifAssume(a.dst != b.dst || a.typ != b.typ || a.src != b.src || a.port != b.port) // ties are rejected by validation (C49a)
		}
	}
	var def *xdsresource.NetworkFilterChainConfig
	hasDefault := verifBool("default-filter-chain")
	if hasDefault {
		def = &xdsresource.NetworkFilterChainConfig{HTTPConnMgr: &xdsresource.HTTPConnectionManagerConfig{RouteConfigName: "default"}}
	}
	fcm := newFilterChainManager(verifBuildMap(chains), def)
	var d, s [4]byte
	for i := range d {
		d[i], s[i] = byte(verifUint32("destination-address-byte")), byte(verifUint32("source-address-byte"))
	}
	dst, src := netip.AddrFrom4(d), netip.AddrFrom4(s)
	port := int(verifUint32("source-port") & 0xffff)
	wildcard := verifBool("listener-on-wildcard-address")
	fc, err := fcm.lookup(lookupParams{isUnspecifiedListener: wildcard, dstAddr: dst, srcAddr: src, srcPort: port})
	verifAssert((fc != nil) != (err != nil), "lookup returns a chain or an error")
	connType := 2
	if src == dst || s[0] == 127 {
		connType = 1
	}
	if !wildcard {
		// a listener bound to a specific address: destination prefixes are not consulted (A36); the source type is
		// decided per destination entry, the most specific level wins, then source prefix and port as usual
		level := func(d int) int {
			for _, c := range chains {
				if c.dst == d && c.typ == connType {
					return connType
				}
			}
			return 0
		}
		bestLevel := 0
		for _, c := range chains {
			if l := level(c.dst); l > bestLevel {
				bestLevel = l
			}
		}
		var kept []verifChain
		bestLen := -2
		for _, c := range chains {
			if level(c.dst) == bestLevel && c.typ == bestLevel && (c.src == 0 || c.srcP.Contains(src)) {
				kept = append(kept, c)
				if c.srcL > bestLen {
					bestLen = c.srcL
				}
			}
		}
		groups := map[[2]int]bool{}
		var last []verifChain
		for _, c := range kept {
			if c.srcL == bestLen {
				groups[[2]int{c.dst, c.src}] = true
				last = append(last, c)
			}
		}
		if len(groups) > 1 {
			verifAssert(err != nil, "chains that tie for a connection are reported, not chosen arbitrarily")
			verifCover("specific-listener-tie")
			return
		}
		w := ""
		for _, c := range last {
			if c.port == port {
				w = c.name
			}
		}
		if w == "" {
			for _, c := range last {
				if c.port == 0 {
					w = c.name
				}
			}
		}
		if w == "" {
			verifAssert(hasDefault && err == nil && fc.routeConfigName == "default" || !hasDefault && err != nil, "specific listener: default chain only when nothing matches")
		} else {
			verifAssert(err == nil && fc.routeConfigName == w, "specific listener: the most specific source type, then source prefix, then source port decide")
		}
		verifCover("specific-listener")
		return
	}
	// reference: most specific match, stage by stage
	want := ""
	cand := chains
	keep := func(pred func(verifChain) bool) {
		var out []verifChain
		for _, c := range cand {
			if pred(c) {
				out = append(out, c)
			}
		}
		cand = out
	}
	keep(func(c verifChain) bool { return c.dst == 0 || c.dstP.Contains(dst) })
	best := -2
	for _, c := range cand {
		if c.dstL > best {
			best = c.dstL
		}
	}
	keep(func(c verifChain) bool { return c.dstL == best })
	specific := false
	for _, c := range cand {
		if c.typ == connType {
			specific = true
		}
	}
	keep(func(c verifChain) bool { return c.typ == connType && specific || c.typ == 0 && !specific })
	keep(func(c verifChain) bool { return c.src == 0 || c.srcP.Contains(src) })
	best = -2
	for _, c := range cand {
		if c.srcL > best {
			best = c.srcL
		}
	}
	keep(func(c verifChain) bool { return c.srcL == best })
	for _, c := range cand {
		if c.port == port {
			want = c.name
		}
	}
	if want == "" {
		for _, c := range cand {
			if c.port == 0 {
				want = c.name
			}
		}
	}
	if want == "" {
		if hasDefault {
			verifAssert(err == nil && fc.routeConfigName == "default", "the default filter chain is used only when no chain matches")
			verifCover("default")
		} else {
			verifAssert(err != nil, "without a default filter chain an unmatched connection is refused")
			verifCover("refused")
		}
		return
	}
	verifAssert(err == nil && fc.routeConfigName == want, "the chain chosen is the most specific match: destination prefix, then source type, then source prefix, then source port")
	switch want {
	case "A":
		verifCover("chain-A")
	case "B":
		verifCover("chain-B")
	case "C":
		verifCover("chain-C")
	case "D":
		verifCover("chain-D")
	}
}
