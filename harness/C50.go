//go:build verif

// C50: load reports neither lose nor double-count events.
//verif:pkg internal/xds/clients/lrsclient
//verif:bound loop=40 steps=6000000 preempt=2 paths=1500000
//verif:thorough preempt=3 paths=6000000
//verif:noreplay schedule-dependent: witnesses are re-executed deterministically in the engine from the recorded decision prefix
//verif:outside more than two event threads (one RPC with a server-load report and its completion; one drop and one RPC start) racing one snapshot, followed by a final snapshot; more than one locality, metric and drop category; floating-point sums of more than one value per snapshot
package lrsclient

import (
	"errors"
	"sync"

	"google.golang.org/grpc/internal/xds/clients"
)

func verifH_C50_reports() {
	p := &PerClusterReporter{cluster: "c", service: "s"}
	loc := clients.Locality{Region: "r", Zone: "z"}
	load := [...]float64{0, 1.5}[verifChoice("load-value", 2)] // an idle backend legitimately reports 0
	failed := verifBool("rpc-failed")
	var wg sync.WaitGroup
	wg.Add(3)
	go func() {
		defer wg.Done()
		p.CallStarted(loc)
		p.CallServerLoad(loc, "cpu", load)
		if failed {
			p.CallFinished(loc, errors.New("failed"))
		} else {
			p.CallFinished(loc, nil)
		}
	}()
	go func() {
		defer wg.Done()
		p.CallDropped("lb")
		p.CallStarted(loc)
	}()
	var first *loadData
	go func() {
		defer wg.Done()
		first = p.stats() // a report is cut at an arbitrary point
	}()
	wg.Wait()
	last := p.stats()
	var issued, succeeded, errored, drops, loadCount uint64
	var loadSum float64
	for _, r := range []*loadData{first, last} {
		if r == nil {
			continue
		}
		drops += r.totalDrops
		verifAssert(r.totalDrops == r.drops["lb"], "per-category drops add up to the total")
		if ld, ok := r.localityStats[loc]; ok {
			issued += ld.requestStats.issued
			succeeded += ld.requestStats.succeeded
			errored += ld.requestStats.errored
			verifAssert(ld.requestStats.inProgress <= 2, "in-progress is a count of RPCs between start and finish")
			if sl, ok := ld.loadStats["cpu"]; ok {
				loadCount += sl.count
				loadSum += sl.sum
			}
		}
	}
	verifAssert(issued == 2, "every started RPC is reported exactly once across consecutive reports")
	if failed {
		verifAssert(errored == 1 && succeeded == 0, "every finished RPC is reported exactly once, as errored")
	} else {
		verifAssert(succeeded == 1 && errored == 0, "every finished RPC is reported exactly once, as succeeded")
	}
	verifAssert(drops == 1, "every drop is reported exactly once")
	verifAssert(loadCount == 1 && loadSum == load, "every server-load report is counted exactly once with its value (also a value of 0)")
	if ld, ok := last.localityStats[loc]; ok {
		verifAssert(ld.requestStats.inProgress == 1, "the final report shows the RPC that is still in progress")
	} else {
		verifAssert(false, "the locality with an RPC in progress is present in the report")
	}
	if first != nil {
		verifCover("first-report-non-empty")
	}
	verifCover("done")
}
