//go:build verif

// C51: a cluster stays usable until every RPC routed to it is committed.
//
//verif:pkg internal/xds/resolver
//verif:bound loop=64 steps=6000000 paths=600000
//verif:stub google.golang.org/grpc/internal/xds/resolver.serviceConfigJSON => verifStubServiceConfigJSON
//verif:stub (*google.golang.org/grpc/internal/xds/xdsdepmgr.DependencyManager).SubscribeToCluster => verifStubSubscribe
//verif:stub (*google.golang.org/grpc/internal/xds/bootstrap.Config).Node => verifStubNode
//verif:noop (*google.golang.org/grpc/internal/grpclog.PrefixLogger).V
//verif:noop (*google.golang.org/grpc/internal/grpclog.PrefixLogger).Infof
//verif:noop (*google.golang.org/grpc/grpclog.componentData).Errorf
//verif:noreplay-stubbed
//verif:outside the construction of config selectors from xDS resources (newConfigSelector needs the dependency manager and HTTP filter builders; selectors are built by hand with the reference counts newConfigSelector takes: one per selector on the clusterInfo, one on each route cluster); JSON rendering of the service config (reflection; replaced by a stub that records which clusters the configuration names); the callback serializer (sendNewServiceConfig is called inline); more than 2 RPCs and one route update; concurrency between SelectConfig and the update (events are sequential, every order of commit-before/after-update is explored)
package resolver

import (
	"context"

	v3corepb "github.com/envoyproxy/go-control-plane/envoy/config/core/v3"
	"google.golang.org/grpc/internal/grpcsync"
	iresolver "google.golang.org/grpc/internal/resolver"
	"google.golang.org/grpc/internal/xds/balancer/clustermanager"
	"google.golang.org/grpc/internal/xds/bootstrap"
	"google.golang.org/grpc/internal/xds/xdsclient"
	"google.golang.org/grpc/internal/xds/xdsclient/xdsresource"
	"google.golang.org/grpc/internal/xds/xdsdepmgr"
	"google.golang.org/grpc/resolver"
	"google.golang.org/grpc/serviceconfig"
)

var verifSentConfigs [][]string // the clusters / plugins named by each configuration sent to the channel

func verifStubServiceConfigJSON(activeClusters map[string]*clusterInfo, activePlugins map[string]*clusterInfo) []byte {
	var names []string
	for k := range activeClusters {
		names = append(names, k)
	}
	for k := range activePlugins {
		names = append(names, k)
	}
	verifSentConfigs = append(verifSentConfigs, names)
	return nil
}

type verifResolverCC struct {
	resolver.ClientConn
	updates int
}

func (c *verifResolverCC) UpdateState(resolver.State) error { c.updates++; return nil }
func (c *verifResolverCC) ReportError(error)                {}
func (c *verifResolverCC) ParseServiceConfig(string) *serviceconfig.ParseResult {
	return &serviceconfig.ParseResult{}
}

type verifOneWRR struct{ item any }

func (w *verifOneWRR) Add(item any, _ int64) { w.item = item }
func (w *verifOneWRR) Next() any             { return w.item }

func verifNamed(cfg []string, name string) bool {
	for _, n := range cfg {
		if n == name {
			return true
		}
	}
	return false
}

func verifH_C51_refcount() {
	verifSentConfigs = nil
	const key = "cluster:A"
	plugin := verifBool("cluster-specifier-plugin") // plugins are dropped by a new service config instead of an unsubscribe
	unsub, interceptorClosed := 0, 0
	cc := &verifResolverCC{}
	r := &xdsResolver{cc: cc, activeClusters: map[string]*clusterInfo{}, activePlugins: map[string]*clusterInfo{}}
	ci := &clusterInfo{unsubscribe: func() { unsub++ }}
	if plugin {
		ci.unsubscribe = nil
		r.activePlugins[key] = ci
	} else {
		r.activeClusters[key] = ci
	}
	// the selector in use routes everything to A (reference counts as newConfigSelector takes them)
	ci.refCount.Add(1)
	rc := grpcsync.NewRefCounted(&routeCluster{name: key}, func() { interceptorClosed++ })
	prefix := ""
	old := &configSelector{
		routes:   []route{{m: xdsresource.RouteToMatcher(&xdsresource.Route{Prefix: &prefix}), actionType: xdsresource.RouteActionRoute, clusters: &verifOneWRR{item: rc}, routeClusters: []*grpcsync.RefCounted[*routeCluster]{rc}}},
		clusters: map[string]*clusterInfo{}, plugins: map[string]*clusterInfo{},
	}
	if plugin {
		old.plugins[key] = ci
	} else {
		old.clusters[key] = ci
	}
	old.sendNewServiceConfig = func() { r.sendNewServiceConfig(r.curConfigSelector) } // the serializer runs it inline here
	r.curConfigSelector = old

	nrpc := 1 + verifChoice("rpcs", 2)
	var cfgs []*iresolver.RPCConfig
	early := make([]bool, nrpc)
	for i := 0; i < nrpc; i++ {
		c, err := old.SelectConfig(iresolver.RPCInfo{Context: context.Background(), Method: "/s/m"})
		verifAssert(err == nil && c != nil && c.OnCommitted != nil, "the RPC is routed to the cluster and gets a commit hook")
		cfgs = append(cfgs, c)
		early[i] = verifBool("committed-before-the-route-update")
	}
	pending := 0
	for i, c := range cfgs {
		if early[i] {
			c.OnCommitted()
			c.OnCommitted() // at most once
		} else {
			pending++
		}
	}
	// the route configuration drops cluster A: a selector without it replaces the old one (as onResolutionComplete does)
	next := &configSelector{clusters: map[string]*clusterInfo{}, plugins: map[string]*clusterInfo{}}
	next.sendNewServiceConfig = old.sendNewServiceConfig
	r.sendNewServiceConfig(next)
	old.stop()
	r.curConfigSelector = next

	present := func() bool {
		if plugin {
			_, ok := r.activePlugins[key]
			return ok
		}
		_, ok := r.activeClusters[key]
		return ok
	}
	if pending > 0 {
		verifAssert(present(), "the cluster stays in the resolver's active set while an RPC routed to it is uncommitted")
		verifAssert(verifNamed(verifSentConfigs[len(verifSentConfigs)-1], key), "and in the configuration sent to the channel")
		verifAssert(unsub == 0 && interceptorClosed == 0, "its subscription and its interceptor stay alive")
		verifCover("kept-for-uncommitted-rpc")
	}
	for i, c := range cfgs {
		if !early[i] {
			verifAssert(present() && interceptorClosed == 0, "still alive until the last RPC commits")
			c.OnCommitted()
			c.OnCommitted()
		}
	}
	// every RPC is committed and the old selector is gone
	verifAssert(ci.refCount.Load() == 0, "each commit hook released its reference exactly once")
	verifAssert(interceptorClosed == 1, "the interceptor of the removed cluster is closed exactly once")
	if !plugin {
		verifAssert(unsub == 1, "the removed cluster is unsubscribed exactly once")
	}
	r.sendNewServiceConfig(r.curConfigSelector)
	verifAssert(!present(), "once all such RPCs are done the removed cluster is dropped from the configuration")
	verifAssert(!verifNamed(verifSentConfigs[len(verifSentConfigs)-1], key), "and from the configuration sent to the channel")
	if plugin && pending > 0 {
		verifAssert(len(verifSentConfigs) >= 3, "the last commit of a plugin-routed RPC triggers a new service config")
	}
	verifCover("dropped")
}

// ---- the real xdsResolver.Update path (newConfigSelector, sendNewServiceConfig, stop of the previous selector) ----

var verifSubscribed, verifUnsubscribed map[string]int

func verifStubSubscribe(m *xdsdepmgr.DependencyManager, name string) func() {
	verifSubscribed[name]++
	return func() { verifUnsubscribed[name]++ }
}

func verifStubNode(c *bootstrap.Config) *v3corepb.Node { return &v3corepb.Node{Id: "node"} }

type verifXDSClient struct{ xdsclient.XDSClient }

func (verifXDSClient) BootstrapConfig() *bootstrap.Config { return &bootstrap.Config{} }

// the channel: on every update it may first route an RPC with the selector it still has installed, then installs the
// new configuration and selector together
type verifChannelCC struct {
	resolver.ClientConn
	installed   iresolver.ConfigSelector
	routeDuring bool
	picked      []string
	hooks       []func()
}

func (c *verifChannelCC) ReportError(error) {}
func (c *verifChannelCC) ParseServiceConfig(string) *serviceconfig.ParseResult {
	return &serviceconfig.ParseResult{}
}
func (c *verifChannelCC) UpdateState(s resolver.State) error {
	named := verifSentConfigs[len(verifSentConfigs)-1]
	if c.installed != nil && c.routeDuring {
		cfg, err := c.installed.SelectConfig(iresolver.RPCInfo{Context: context.Background(), Method: "/s/m"})
		verifAssert(err == nil, "an RPC arriving during the switch is still routed by the installed selector")
		name := clustermanager.PickedCluster(cfg.Context)
		verifAssert(verifNamed(named, name), "the cluster an RPC was routed to is part of the configuration the channel is given, until that RPC commits")
		c.picked = append(c.picked, name)
		c.hooks = append(c.hooks, cfg.OnCommitted)
		verifCover("rpc-routed-during-the-switch")
	}
	c.installed = iresolver.GetConfigSelector(s)
	return nil
}

func verifXDSConfig(clusters ...string) *xdsresource.XDSConfig {
	prefix := ""
	var wcs []xdsresource.WeightedCluster
	for _, n := range clusters {
		wcs = append(wcs, xdsresource.WeightedCluster{Name: n, Weight: 1})
	}
	rt := &xdsresource.Route{Prefix: &prefix, WeightedClusters: wcs, ActionType: xdsresource.RouteActionRoute}
	return &xdsresource.XDSConfig{Listener: &xdsresource.ListenerUpdate{APIListener: &xdsresource.HTTPConnectionManagerConfig{}},
		RouteConfig: &xdsresource.RouteConfigUpdate{}, VirtualHost: &xdsresource.VirtualHost{Routes: []*xdsresource.Route{rt}}}
}

func verifH_C51_update() {
	verifSentConfigs = nil
	verifSubscribed, verifUnsubscribed = map[string]int{}, map[string]int{}
	cc := &verifChannelCC{routeDuring: verifBool("an-rpc-arrives-during-the-switch")}
	ctx, cancel := context.WithCancel(context.Background())
	r := &xdsResolver{cc: cc, xdsClient: verifXDSClient{}, activeClusters: map[string]*clusterInfo{}, activePlugins: map[string]*clusterInfo{},
		serializer: grpcsync.NewCallbackSerializer(ctx), serializerCancel: cancel}
	r.Update(verifXDSConfig("A"))      // everything is routed to A
	r.Update(verifXDSConfig("B"))      // the route configuration replaces A by B
	verifAtQuiescence(func() {
		verifAssert(len(verifSentConfigs) == 2, "each update pushes a configuration")
		if cc.routeDuring {
			verifAssert(len(cc.picked) == 1 && cc.picked[0] == "cluster:A", "the RPC was routed to the cluster being removed")
			_, kept := r.activeClusters["cluster:A"]
			verifAssert(kept && verifUnsubscribed["A"] == 0, "the removed cluster stays alive while that RPC is uncommitted")
			cc.hooks[0]()
			cc.hooks[0]() // the commit hook runs at most once
		}
		verifAssert(verifUnsubscribed["A"] == 1 && verifSubscribed["A"] == 1, "once no RPC needs it the removed cluster is unsubscribed exactly once")
		cc.routeDuring = false
		r.Update(verifXDSConfig("B"))
		verifAtQuiescence(func() {
			_, kept := r.activeClusters["cluster:A"]
			verifAssert(!kept && !verifNamed(verifSentConfigs[len(verifSentConfigs)-1], "cluster:A"), "and it is dropped from the next configuration")
			verifAssert(verifNamed(verifSentConfigs[len(verifSentConfigs)-1], "cluster:B") && verifUnsubscribed["B"] == 0, "the cluster still routed to stays")
			cancel()
			verifCover("real-update-path")
		})
	})
}
