//go:build verif

// C52: ALTS record protocol: counter (nonce) handling and record framing.
//verif:pkg credentials/alts/internal/conn
//verif:bound loop=64 steps=8000000
//verif:outside confidentiality and tamper detection (AES-GCM is not encodable; the record crypto is a harness stand-in adding a fixed-size tag, so only framing, lengths, ordering and counter handling are decided); payload limits other than 3-4 bytes per frame and writes longer than 9 bytes (the frame arithmetic is executed for real on these small sizes); the 512 KiB write-buffer chunking; in the corrupt-input harness declared record lengths between 17 bytes and 1 MiB
package conn

import (
	"encoding/binary"
	"errors"
	"net"
)

// ---- counter ----
func verifH_C52_counter() {
	c := &Counter{overflowLen: verifChoice("overflowLen", 13)}
	var before [counterLen]byte
	for i := range c.value {
		c.value[i] = verifUint8("b")
		before[i] = c.value[i]
	}
	c.Inc()
	// reference: little-endian +1 over the first overflowLen bytes; invalid exactly when they wrap
	carry := true
	allFF := true
	for i := 0; i < counterLen; i++ {
		want := before[i]
		if i < c.overflowLen {
			if before[i] != 0xFF {
				allFF = false
			}
			if carry {
				want = before[i] + 1
				carry = before[i] == 0xFF
			}
		}
		verifAssert(c.value[i] == want, "little-endian increment over the overflow-length prefix, other bytes untouched")
	}
	v, err := c.Value()
	if allFF {
		verifAssert(c.invalid && err != nil && v == nil, "counter becomes invalid exactly when the prefix wraps: the nonce is never reused")
		snapshot := c.value
		c.Inc()
		_, err2 := c.Value()
		verifAssert(err2 != nil && c.value == snapshot, "an invalid counter stays invalid and unchanged")
		verifCover("wrapped")
	} else {
		verifAssert(!c.invalid && err == nil && len(v) == counterLen, "valid counter yields its value")
		verifCover("incremented")
	}
}

// ---- framing ----
const verifTag = 2

type verifCrypto struct{}

func (verifCrypto) Encrypt(dst, plaintext []byte) ([]byte, error) {
	out := append(dst, plaintext...)
	return append(out, 0xAA, 0xBB), nil
}
func (verifCrypto) EncryptionOverhead() int { return verifTag }
func (verifCrypto) Decrypt(dst, ciphertext []byte) ([]byte, error) {
	if len(ciphertext) < verifTag {
		return nil, errors.New("short")
	}
	return append(dst, ciphertext[:len(ciphertext)-verifTag]...), nil
}

type verifNetConn struct {
	net.Conn
	written []byte
	writes  int
	failN   int // bytes accepted before failing; -1 = no failure
}

func (c *verifNetConn) Write(b []byte) (int, error) {
	c.writes++
	if c.failN >= 0 && c.failN <= len(b) {
		c.written = append(c.written, b[:c.failN]...)
		return c.failN, errors.New("write failed")
	}
	c.written = append(c.written, b...)
	return len(b), nil
}
func (c *verifNetConn) Read(b []byte) (int, error) { return 0, errors.New("no more data") }

// symbolic contents, length chosen per path (keeps the float frame arithmetic concrete)
func verifData(max int) []byte {
	bb := verifBytes("b", max)
	verifAssume(len(bb) == max)
	return bb[:verifChoice("len", max+1)]
}

func verifNewConn(nc *verifNetConn, limit int) *conn {
	return &conn{Conn: nc, crypto: verifCrypto{}, payloadLengthLimit: limit, overhead: MsgLenFieldSize + msgTypeFieldSize + verifTag}
}

// Write: every record within the frame limit, exact length prefixes, payloads consecutive and covering b
func verifH_C52_write() {
	limit := 3 + verifChoice("limit", 2)
	nc := &verifNetConn{failN: -1}
	p := verifNewConn(nc, limit)
	b := verifData(9)
	n, err := p.Write(b)
	verifAssert(err == nil && n == len(b), "Write reports all bytes written")
	off, done := 0, 0
	w := nc.written
	for off < len(w) {
		verifAssert(off+8 <= len(w), "complete frame header")
		l := int(binary.LittleEndian.Uint32(w[off:]))
		typ := binary.LittleEndian.Uint32(w[off+4:])
		verifAssert(typ == altsRecordMsgType, "record type")
		pay := l - msgTypeFieldSize - verifTag
		verifAssert(pay >= 1 && pay <= limit, "every record carries between 1 byte and the negotiated payload limit")
		verifAssert(off+4+l <= len(w), "length prefix matches the bytes present")
		for i := 0; i < pay; i++ {
			verifAssert(done+i < len(b) && w[off+8+i] == b[done+i], "payloads are consecutive ranges of b")
		}
		done += pay
		off += 4 + l
	}
	verifAssert(done == len(b), "the records cover b exactly")
	if len(b) > limit {
		verifCover("several-frames")
	}
	verifCover("done")
}

// Write error: the returned count is the payload carried by fully written frames
func verifH_C52_writefail() {
	limit := 3
	b := verifData(7)
	verifAssume(len(b) >= 1)
	nc := &verifNetConn{failN: verifChoice("failAt", 41)}
	p := verifNewConn(nc, limit)
	n, err := p.Write(b)
	frame := limit + p.overhead
	total := (len(b)+limit-1)/limit*p.overhead + len(b)
	if nc.failN <= total {
		verifAssert(err != nil, "the transport error is reported")
		verifAssert(n == (nc.failN/frame)*limit, "count = payload bytes of the frames that were fully written")
		verifCover("failed")
	} else {
		verifAssert(err == nil && n == len(b), "no failure")
		verifCover("ok")
	}
}

// Read: the plaintext of the records is delivered in order, never more than the caller's buffer holds
func verifH_C52_read() {
	limit := 3
	nc := &verifNetConn{failN: -1}
	wr := verifNewConn(nc, limit)
	b := verifData(5)
	verifAssume(len(b) >= 1)
	wr.Write(b)
	wire := append([]byte(nil), nc.written...)
	rd := verifNewConn(&verifNetConn{failN: -1}, limit)
	rd.protectedHandle = &wire
	rd.nextFrame = wire
	var got []byte
	for rounds := 0; rounds < 8 && len(got) < len(b); rounds++ {
		bufLen := 1 + verifChoice("buflen", 4)
		buf := make([]byte, bufLen, 8)
		n, err := rd.Read(buf)
		verifAssert(err == nil, "records already received are readable")
		verifAssert(n >= 0 && n <= bufLen, "Read never reports more bytes than the caller's buffer holds")
		if n > bufLen || n < 0 {
			return
		}
		got = append(got, buf[:n]...)
	}
	verifAssert(len(got) == len(b), "all plaintext delivered")
	for i := range got {
		verifAssert(i < len(b) && got[i] == b[i], "delivered bytes equal the written bytes, in order")
	}
	verifCover("done")
}

// corrupt length field: an error, never an out-of-range slice
func verifH_C52_corrupt() {
	wire := verifBytes("wire", 12)
	verifAssume(len(wire) == 12)
	declared := binary.LittleEndian.Uint32(wire)
	verifAssume(declared <= 16 || declared > altsRecordLengthLimit) // lengths in between need a larger receive buffer than the engine allocates symbolically
	rd := verifNewConn(&verifNetConn{failN: -1}, 3)
	rd.protectedHandle = &wire
	rd.nextFrame = wire
	buf := make([]byte, 4)
	n, err := rd.Read(buf)
	verifAssert(err != nil || (n >= 0 && n <= 4), "arbitrary bytes are rejected or yield at most the buffer size; no run-time panic")
	if err != nil {
		verifCover("rejected")
	} else {
		verifCover("accepted")
	}
}
