//go:build verif

// C53 (part a): reference-counted pooled buffers are returned exactly once and never reused while referenced.
//verif:pkg mem
//verif:bound loop=64 steps=6000000 paths=400000
//verif:outside slice/split offsets other than {0, n/2, n}; histories longer than 3 (quick) / 4 (thorough) operations over more than 4 live references; buffers other than one pooled 1030-byte buffer (only the reference accounting depends on the size being above the pooling threshold)
package mem

type verifPool struct {
	puts    int
	putData *[]byte
}

func (p *verifPool) Get(n int) *[]byte { b := make([]byte, n); return &b }
func (p *verifPool) Put(b *[]byte)      { p.puts++; p.putData = b }

type verifRef struct {
	b      Buffer
	lo, hi int // window of the original data this reference must show
}

const verifSize = 1030

// a cut point inside a window of n bytes: start, middle, end
func verifCut(name string, n int) int {
	switch verifChoice(name, 3) {
	case 0:
		return 0
	case 1:
		return n / 2
	}
	return n
}

func verifCheckRefs(refs []verifRef, orig []byte, pool *verifPool) {
	if len(refs) > 0 {
		verifAssert(pool.puts == 0, "the data is not returned to the pool while any reference is live")
	}
	for _, r := range refs {
		d := r.b.ReadOnlyData()
		verifAssert(len(d) == r.hi-r.lo, "a live reference shows its window of the original data (length)")
		if r.hi > r.lo {
			verifAssert(&d[0] == &orig[r.lo] && &d[len(d)-1] == &orig[r.hi-1], "a live reference reads the original bytes (same memory, never recycled)")
		}
	}
}

func verifShared(refs []verifRef, k int) bool {
	for j := range refs {
		if j != k && refs[j].b == refs[k].b {
			return true
		}
	}
	return false
}

var verifNops = 3

//verif:thoroughonly verifH_C53_refcount4
func verifH_C53_refcount4() {
	verifNops = 4
	verifH_C53_refcount()
}

func verifH_C53_refcount() {
	pool := &verifPool{}
	data := make([]byte, verifSize)
	orig := data
	root := NewBuffer(&data, pool)
	refs := []verifRef{{root, 0, verifSize}}
	for i := 0; i < verifNops && len(refs) > 0; i++ {
		k := verifChoice("which", len(refs))
		r := refs[k]
		switch verifChoice("op", 5) {
		case 0: // Ref: one more owner of the same window
			r.b.Ref()
			if len(refs) < 4 {
				refs = append(refs, r)
			} else {
				r.b.Free()
			}
		case 1: // Free
			r.b.Free()
			refs = append(append([]verifRef{}, refs[:k]...), refs[k+1:]...)
		case 2: // Slice
			if len(refs) >= 4 {
				continue
			}
			n := r.hi - r.lo
			s, e := verifCut("start", n), verifCut("end", n)
			verifAssume(s <= e)
			nb := r.b.Slice(s, e)
			if e > s {
				refs = append(refs, verifRef{nb, r.lo + s, r.lo + e})
			} else {
				verifAssert(nb.Len() == 0, "empty slice")
			}
		case 3: // split: the reference keeps the left part, a new one gets the right part (needs sole ownership of the handle)
			if len(refs) >= 4 || verifShared(refs, k) {
				continue
			}
			at := verifCut("at", r.hi-r.lo)
			l, rt := SplitUnsafe(r.b, at)
			refs[k] = verifRef{l, r.lo, r.lo + at}
			refs = append(refs, verifRef{rt, r.lo + at, r.hi})
		case 4: // read consumes a prefix (needs sole ownership of the handle)
			if verifShared(refs, k) {
				continue
			}
			dn := verifChoice("dst", 3)
			dst := make([]byte, dn)
			n, rest := ReadUnsafe(dst, r.b)
			want := r.hi - r.lo
			if dn < want {
				want = dn
			}
			verifAssert(n == want, "read copies min(len(dst), remaining) bytes")
			if rest == nil {
				refs = append(append([]verifRef{}, refs[:k]...), refs[k+1:]...)
			} else {
				refs[k] = verifRef{rest, r.lo + n, r.hi}
			}
		}
		verifCheckRefs(refs, orig, pool)
	}
	// release everything that is still referenced
	for _, r := range refs {
		verifAssert(pool.puts == 0, "not returned before the last reference is freed")
		r.b.Free()
	}
	verifAssert(pool.puts == 1 && pool.putData == &data, "the backing data returns to the pool exactly once, when the last reference is freed")
	// a further Free panics instead of returning the data a second time
	panicked := false
	func() {
		defer func() {
			if recover() != nil {
				panicked = true
			}
		}()
		root.Free()
	}()
	verifAssert(panicked && pool.puts == 1, "double free panics rather than double-returning to the pool")
	if len(refs) >= 3 {
		verifCover("three-live-refs")
	}
	verifCover("done")
}
