//go:build verif

// C53 (part b): buffer pools return buffers of the requested length, zeroed when the pool is a zeroing pool,
// whatever an earlier user left in a recycled buffer.
//verif:pkg internal/mem
//verif:poolreuse
//verif:bound loop=128 steps=6000000
//verif:outside tier sizes other than 16 and 64 bytes; request sizes other than the listed boundary values; more than one recycled buffer per tier
package mem

var verifSizes = [...]int{0, 1, 5, 15, 16, 17, 40, 64, 65}

func verifDirty(b *[]byte) {
	full := (*b)[:cap(*b)]
	for i := range full {
		full[i] = 0xAA
	}
}

func verifCheckBuf(b *[]byte, n int, zero bool, label string) {
	verifAssert(b != nil && len(*b) == n && cap(*b) >= n, label+": Get(n) returns a buffer of length n")
	if zero {
		for i := 0; i < n; i++ {
			verifAssert((*b)[i] == 0, label+": a zeroing pool returns zeroed bytes even from a recycled buffer")
		}
	}
}

// sized tier: Get, dirty the whole capacity, shrink, Put, Get again (the pool may or may not recycle)
func verifH_C53_sizedpool() {
	zero := verifBool("zero")
	p := newSizedBufferPool(16, zero)
	n1 := verifSizes[verifChoice("n1", 5)] // up to the tier size
	b1 := p.Get(n1)
	verifCheckBuf(b1, n1, zero, "first Get")
	verifDirty(b1)
	k := verifSizes[verifChoice("shrink", 5)]
	*b1 = (*b1)[:k] // callers may return a prefix of what they got
	p.Put(b1)
	n2 := verifSizes[verifChoice("n2", 5)]
	b2 := p.Get(n2)
	verifCheckBuf(b2, n2, zero, "second Get")
	if b2 == b1 {
		verifCover("recycled")
	}
}

func verifH_C53_simplepool() {
	zero := verifBool("zero")
	p := &SimpleBufferPool{shouldZero: zero}
	n1 := verifSizes[verifChoice("n1", 6)]
	b1 := p.Get(n1)
	verifCheckBuf(b1, n1, zero, "first Get")
	verifDirty(b1)
	k := verifSizes[verifChoice("shrink", 3)]
	if k <= cap(*b1) {
		*b1 = (*b1)[:k]
	}
	p.Put(b1)
	n2 := verifSizes[verifChoice("n2", 9)]
	b2 := p.Get(n2)
	verifCheckBuf(b2, n2, zero, "second Get")
	if b2 == b1 {
		verifCover("recycled")
	}
}

// binary tiered pool with tiers of 16 and 64 bytes
func verifH_C53_tiered() {
	zero := verifBool("zero")
	var p *BinaryTieredBufferPool
	var err error
	if zero {
		p, err = NewBinaryTieredBufferPool(4, 6)
	} else {
		p, err = NewDirtyBinaryTieredBufferPool(4, 6)
	}
	verifAssert(err == nil, "pool created")
	n1 := verifSizes[verifChoice("n1", 9)]
	b1 := p.Get(n1)
	verifCheckBuf(b1, n1, zero, "first Get")
	if n1 >= 1 && n1 <= 16 {
		verifAssert(cap(*b1) == 16, "smallest tier that fits")
	} else if n1 > 16 && n1 <= 64 {
		verifAssert(cap(*b1) == 64, "next tier")
	}
	verifDirty(b1)
	k := verifSizes[verifChoice("shrink", 3)]
	if k <= cap(*b1) {
		*b1 = (*b1)[:k]
	}
	p.Put(b1)
	n2 := verifSizes[verifChoice("n2", 9)]
	b2 := p.Get(n2)
	verifCheckBuf(b2, n2, zero, "second Get")
	if b2 == b1 {
		verifCover("recycled")
	}
}
