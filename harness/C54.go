//go:build verif

// C54: health Watch streams converge on the current status.
//verif:pkg health
//verif:bound loop=40 steps=6000000 preempt=2 paths=1500000
//verif:thorough preempt=3 paths=6000000
//verif:noreplay schedule-dependent: witnesses are re-executed deterministically in the engine from the recorded decision prefix
//verif:outside more than one watcher and one setter thread issuing two status changes (optionally Shutdown or Resume in between); more than one watched service
package health

import (
	"context"
	"sync"

	healthgrpc "google.golang.org/grpc/health/grpc_health_v1"
	healthpb "google.golang.org/grpc/health/grpc_health_v1"
)

type verifWatchStream struct {
	healthgrpc.Health_WatchServer
	ctx  context.Context
	sent []healthpb.HealthCheckResponse_ServingStatus
}

func (w *verifWatchStream) Send(r *healthpb.HealthCheckResponse) error {
	w.sent = append(w.sent, r.Status)
	return nil
}
func (w *verifWatchStream) Context() context.Context { return w.ctx }

var verifStatuses = [...]healthpb.HealthCheckResponse_ServingStatus{healthpb.HealthCheckResponse_SERVING, healthpb.HealthCheckResponse_NOT_SERVING}

func verifH_C54_watch() {
	s := NewServer()
	known := verifBool("service-registered-before-watch")
	had := map[healthpb.HealthCheckResponse_ServingStatus]bool{}
	if known {
		s.SetServingStatus("svc", healthpb.HealthCheckResponse_SERVING)
		had[healthpb.HealthCheckResponse_SERVING] = true
	} else {
		had[healthpb.HealthCheckResponse_SERVICE_UNKNOWN] = true
	}
	ctx, cancel := context.WithCancel(context.Background())
	stream := &verifWatchStream{ctx: ctx}
	watcherDone := false
	go func() {
		verifDaemon()
		s.Watch(&healthpb.HealthCheckRequest{Service: "svc"}, stream)
		watcherDone = true
	}()
	st1 := verifStatuses[verifChoice("status1", 2)]
	st2 := verifStatuses[verifChoice("status2", 2)]
	middle := verifChoice("between", 3) // 0 nothing, 1 Shutdown, 2 Shutdown then Resume
	var wg sync.WaitGroup
	wg.Add(1)
	go func() {
		defer wg.Done()
		s.SetServingStatus("svc", st1)
		switch middle {
		case 1:
			s.Shutdown()
		case 2:
			s.Shutdown()
			s.Resume()
		}
		s.SetServingStatus("svc", st2)
	}()
	had[st1], had[st2] = true, true
	if middle >= 1 {
		had[healthpb.HealthCheckResponse_NOT_SERVING] = true
	}
	if middle == 2 {
		had[healthpb.HealthCheckResponse_SERVING] = true
	}
	wg.Wait()
	verifAtQuiescence(func() {
		// the stream is idle: everything queued has been sent
		resp, err := s.Check(context.Background(), &healthpb.HealthCheckRequest{Service: "svc"})
		verifAssert(err == nil, "the service is known after a status was set")
		current := resp.Status
		if middle == 1 {
			verifAssert(current == healthpb.HealthCheckResponse_NOT_SERVING, "after Shutdown every service reports NOT_SERVING and later sets are ignored")
		} else {
			verifAssert(current == st2, "Check reports the latest status set")
		}
		verifAssert(len(stream.sent) >= 1, "a watcher always receives at least the status at registration")
		if len(stream.sent) >= 1 {
			verifAssert(stream.sent[len(stream.sent)-1] == current, "the last message of an idle Watch stream is the current status")
		}
		for i, m := range stream.sent {
			verifAssert(had[m], "every message is a status the service actually had")
			if i > 0 {
				verifAssert(stream.sent[i-1] != m, "no two consecutive messages are equal")
			}
		}
		verifAssert(!watcherDone, "the watch stays open")
		if len(stream.sent) >= 3 {
			verifCover("three-messages")
		}
		verifCover("done")
		cancel()
	})
}
