//go:build verif

// C55: binary logs are correctly truncated and never include omitted headers.
//verif:pkg internal/binarylog
//verif:bound loop=40 steps=2000000
//verif:outside metadata with more than 4 entries; keys other than the three lengths 1, 2 and 14 bytes in the truncation harness (only key+value sizes matter there); header names longer than 16 bytes in the omit harness
package binarylog

import (
	binlogpb "google.golang.org/grpc/binarylog/grpc_binarylog_v1"
	"google.golang.org/grpc/metadata"
)

func verifKey(i int) string {
	switch verifChoice("key", 3) {
	case 0:
		return "grpc-trace-bin"
	case 1:
		return "a"
	}
	return "bb"
}

// truncateMetadata keeps the longest fitting prefix of countable entries plus every grpc-trace-bin.
func verifH_C55_metadata() {
	n := verifChoice("n", 5) // 0..4 entries
	limit := verifUint64("limit")
	ml := &TruncatingMethodLogger{headerMaxLen: limit, messageMaxLen: maxUInt}
	in := make([]*binlogpb.MetadataEntry, n)
	for i := 0; i < n; i++ {
		in[i] = &binlogpb.MetadataEntry{Key: verifKey(i), Value: verifBytes("val", 6)}
	}
	md := &binlogpb.Metadata{Entry: append([]*binlogpb.MetadataEntry(nil), in...)}
	truncated := ml.truncateMetadata(md)

	// reference: which entries must be kept
	keep := make([]bool, n)
	budget := limit
	cut := false
	traceAfterCut := false
	for i := 0; i < n; i++ {
		e := in[i]
		if e.Key == "grpc-trace-bin" {
			keep[i] = true
			if cut {
				traceAfterCut = true
			}
			continue
		}
		sz := uint64(len(e.Key)) + uint64(len(e.Value))
		if !cut && (limit == maxUInt || sz <= budget) {
			keep[i] = true
			if limit != maxUInt {
				budget -= sz
			}
		} else {
			cut = true
		}
	}
	// compare
	j := 0
	dropped := false
	okOrder := true
	for i := 0; i < n; i++ {
		if keep[i] {
			if j < len(md.Entry) && md.Entry[j] == in[i] {
				j++
			} else {
				okOrder = false
			}
		} else {
			dropped = true
		}
	}
	verifAssertKF(okOrder && j == len(md.Entry), "kept entries are exactly the fitting prefix plus every grpc-trace-bin, in order",
		"F7-tracebin-after-cut", traceAfterCut)
	if !traceAfterCut {
		verifAssert(truncated == dropped, "truncated flag set exactly when something was dropped")
	}
	if dropped {
		verifCover("dropped")
	} else {
		verifCover("all-kept")
	}
}

func verifH_C55_message() {
	limit := verifUint64("limit")
	data := verifBytes("data", 12)
	n := len(data)
	ml := &TruncatingMethodLogger{headerMaxLen: maxUInt, messageMaxLen: limit}
	msg := &binlogpb.Message{Data: data}
	truncated := ml.truncateMessage(msg)
	if uint64(n) > limit {
		verifAssert(truncated && uint64(len(msg.Data)) == limit, "message cut to the limit and flagged")
		verifCover("cut")
	} else {
		verifAssert(!truncated && len(msg.Data) == n, "message within the limit is untouched and not flagged")
		verifCover("whole")
	}
	for i := 0; i < len(msg.Data); i++ {
		verifAssert(&msg.Data[i] == &data[i], "logged bytes are the payload prefix")
	}
}

func verifRefOmit(k string) bool {
	if k == "grpc-trace-bin" {
		return false
	}
	if len(k) >= 5 && k[0] == 'g' && k[1] == 'r' && k[2] == 'p' && k[3] == 'c' && k[4] == '-' {
		return true
	}
	return k == "lb-token" || k == ":path" || k == ":authority" || k == "content-encoding" || k == "content-type" || k == "user-agent" || k == "te"
}

func verifH_C55_omit() {
	k := verifString("k", 16)
	verifAssert(metadataKeyOmit(k) == verifRefOmit(k), "omit decision matches the documented list")
	verifObserveStr("k", k)
	if verifRefOmit(k) {
		verifCover("omitted")
	} else {
		verifCover("logged")
	}
}

var verifNames = [...]string{"grpc-trace-bin", "grpc-timeout", ":path", ":authority", "content-type", "user-agent", "te", "lb-token", "x", "grpc-encoding"}

// mdToMetadataProto never emits an omitted header and emits every value of every other key in order.
func verifH_C55_mdproto() {
	k1 := verifNames[verifChoice("k1", len(verifNames))]
	k2 := verifNames[verifChoice("k2", len(verifNames))]
	md := metadata.MD{}
	md[k1] = []string{"v1", "v2"}
	if k2 != k1 {
		md[k2] = []string{"w"}
	}
	out := mdToMetadataProto(md)
	c1, c2 := 0, 0
	for _, e := range out.Entry {
		verifAssert(!verifRefOmit(e.Key), "omitted header never appears in the log entry")
		if e.Key == k1 {
			if c1 == 0 {
				verifAssert(string(e.Value) == "v1", "values in order")
			} else {
				verifAssert(string(e.Value) == "v2", "values in order")
			}
			c1++
		} else if e.Key == k2 {
			verifAssert(string(e.Value) == "w", "value kept")
			c2++
		}
	}
	if !verifRefOmit(k1) {
		verifAssert(c1 == 2, "every value of a loggable key is logged")
		verifCover("logged-key")
	} else {
		verifAssert(c1 == 0, "nothing logged for an omitted key")
		verifCover("omitted-key")
	}
	if k2 != k1 && !verifRefOmit(k2) {
		verifAssert(c2 == 1, "second key logged")
	}
}
