//go:build verif

// C56: DNS re-resolution pacing and target parsing.
//verif:pkg internal/resolver/dns
//verif:bound loop=64 steps=8000000 preempt=1 paths=600000
//verif:stub math/rand/v2.Float64 => verifRandHalf
//verif:noreplay schedule-dependent and virtual-clock based: witnesses are re-executed deterministically in the engine
//verif:outside timelines longer than 3 lookups with 2 application-side steps; SRV/TXT lookups (disabled); the target-string grammar beyond the listed forms (netip / net.SplitHostPort are executed from source on concrete strings drawn from a list, not on arbitrary strings)
package dns

import (
	"context"
	"errors"
	"net"
	"time"

	"google.golang.org/grpc/resolver"
	"google.golang.org/grpc/serviceconfig"
)

func verifRandHalf() float64 { return 0.5 } // the backoff jitter draw is fixed (its bounds are decided under C19/C20)

type verifNetResolver struct {
	times    []int64
	ok       []bool
	d        **dnsResolver
	maxCalls int
}

func (r *verifNetResolver) LookupHost(ctx context.Context, host string) ([]string, error) {
	r.times = append(r.times, verifNow())
	ok := verifBool("lookup-succeeds")
	r.ok = append(r.ok, ok)
	if len(r.times) >= r.maxCalls {
		(*r.d).cancel() // bound the timeline: the resolver is closed after the last modelled lookup
	}
	if !ok {
		return nil, errors.New("lookup failed")
	}
	return []string{"10.0.0.1", "::1", "::ffff:10.1.2.3"}, nil
}
func (r *verifNetResolver) LookupSRV(context.Context, string, string, string) (string, []*net.SRV, error) {
	return "", nil, nil
}
func (r *verifNetResolver) LookupTXT(context.Context, string) ([]string, error) { return nil, nil }

type verifDNSCC struct {
	resolver.ClientConn
	updates []resolver.State
	errs    int
}

func (c *verifDNSCC) UpdateState(s resolver.State) error { c.updates = append(c.updates, s); return nil }
func (c *verifDNSCC) ReportError(error)                  { c.errs++ }
func (c *verifDNSCC) ParseServiceConfig(string) *serviceconfig.ParseResult {
	return nil
}

func verifH_C56_pacing() {
	savedSRV := EnableSRVLookups
	EnableSRVLookups = false
	ctx, cancel := context.WithCancel(context.Background())
	cc := &verifDNSCC{}
	var d *dnsResolver
	nr := &verifNetResolver{d: &d, maxCalls: 3}
	d = &dnsResolver{host: "h", port: "443", resolver: nr, ctx: ctx, cancel: cancel, cc: cc, rn: make(chan struct{}, 1)}
	d.wg.Add(1)
	go d.watcher()
	var rnTimes []int64
	for i := 0; i < 2; i++ { // the channel asks for re-resolution at arbitrary moments
		gap := verifInt64("gap")
		verifAssume(gap >= 0 && gap <= int64(100*time.Second))
		<-time.After(time.Duration(gap)) // virtual time: timers fire in deadline order, the clock stands at each deadline
		if verifBool("resolve-now") {
			d.ResolveNow(resolver.ResolveNowOptions{})
			rnTimes = append(rnTimes, verifNow())
		}
	}
	verifAtQuiescence(func() {
		for i := 0; i+1 < len(nr.times); i++ {
			gap := nr.times[i+1] - nr.times[i]
			if nr.ok[i] {
				verifAssert(gap >= int64(MinResolutionInterval), "after a successful resolution no new lookup starts before the minimum resolution interval has passed")
				verifAssert(len(rnTimes) > 0, "and only after a re-resolution request has arrived")
			} else {
				// exponential backoff with the default parameters: 1s x 1.6^k, +-20% jitter
				k := 1
				for j := i - 1; j >= 0 && !nr.ok[j]; j-- {
					k++
				}
				base := float64(time.Second)
				for j := 0; j < k; j++ {
					base *= 1.6
				}
				verifAssert(gap >= int64(base*0.8)-1 && gap <= int64(base*1.2)+1, "after a failed lookup the retry waits the exponential backoff (within its jitter)")
			}
		}
		if len(rnTimes) == 0 && len(nr.ok) >= 1 && nr.ok[0] {
			verifAssert(len(nr.times) == 1, "without a re-resolution request a successful resolver stays quiet")
			verifCover("quiet-after-success")
		}
		if len(nr.times) == 3 {
			verifCover("three-lookups")
		}
		for _, u := range cc.updates {
			verifAssert(len(u.Addresses) == 3 && u.Addresses[0].Addr == "10.0.0.1:443" && u.Addresses[1].Addr == "[::1]:443" && u.Addresses[2].Addr == "[::ffff:10.1.2.3]:443", "addresses are emitted as host:port with IPv6 (including IPv4-mapped IPv6) bracketed")
		}
		n := len(nr.times)
		d.Close()
		verifAssert(len(nr.times) == n, "no lookup after Close")
		EnableSRVLookups = savedSRV
		verifCover("done")
	})
}

type verifTargetCase struct {
	in         string
	host, port string
	ok         bool
}

var verifTargets = [...]verifTargetCase{
	{"www.example.com", "www.example.com", "443", true},
	{"host:80", "host", "80", true},
	{"1.2.3.4", "1.2.3.4", "443", true},
	{"1.2.3.4:80", "1.2.3.4", "80", true},
	{"[::1]", "::1", "443", true},
	{"[::1]:80", "::1", "80", true},
	{"::1", "::1", "443", true},
	{"2001:db8::1", "2001:db8::1", "443", true},
	{":80", "localhost", "80", true},
	{"host:", "", "", false},
	{"[::1]:", "", "", false},
	{"", "", "", false},
	{"[::1", "", "", false},
	{"a:b:c", "", "", false},
}

func verifH_C56_target() {
	c := verifTargets[verifChoice("target", len(verifTargets))]
	h, p, err := parseTarget(c.in, "443")
	if c.ok {
		verifAssert(err == nil && h == c.host && p == c.port, "host, host:port, IPv4 and bracketed or bare IPv6 forms are accepted with the default port applied")
		verifCover("accepted")
	} else {
		verifAssert(err != nil, "a trailing colon, an empty target and malformed brackets are rejected")
		verifCover("rejected")
	}
}
