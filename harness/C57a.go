//go:build verif

// C57 (part a): one-shot Event and RefCounted under all interleavings.
//verif:pkg internal/grpcsync
//verif:bound loop=40 steps=4000000 preempt=3 paths=400000
//verif:noreplay schedule-dependent: the interleaving is part of the witness and cannot be forced natively; witnesses are re-executed deterministically in the engine from the recorded decision prefix
//verif:outside more than 3 concurrent firers; more than 2 concurrent users of a RefCounted besides the owner
package grpcsync

import "sync"

// concurrent Fire: exactly one caller is told it fired the event; Done is closed iff fired
func verifH_C57_event() {
	e := NewEvent()
	n := 2 + verifChoice("firers", 2)
	res := make([]bool, n)
	var wg sync.WaitGroup
	for i := 0; i < n; i++ {
		wg.Add(1)
		i := i
		go func() {
			defer wg.Done()
			res[i] = e.Fire()
		}()
	}
	select {
	case <-e.Done():
		verifAssert(e.HasFired(), "Done is closed only after a Fire")
	default:
	}
	wg.Wait()
	wins := 0
	for _, r := range res {
		if r {
			wins++
		}
	}
	verifAssert(wins == 1, "exactly one of the concurrent firers is told it fired the event")
	verifAssert(e.HasFired(), "fired")
	select {
	case <-e.Done():
	default:
		verifAssert(false, "Done is closed once fired")
	}
	verifAssert(!e.Fire(), "a later Fire reports false")
	verifCover("done")
}

// RefCounted: cleanup runs exactly once when the count reaches zero; no re-acquisition afterwards
func verifH_C57_refcounted() {
	zero := 0
	rc := NewRefCounted(7, func() { zero++ })
	var wg sync.WaitGroup
	users := 1 + verifChoice("users", 2)
	got := make([]bool, users)
	for i := 0; i < users; i++ {
		wg.Add(1)
		i := i
		go func() {
			defer wg.Done()
			if rc.TryIncrement() {
				got[i] = true
				verifAssert(zero == 0, "the resource is alive while a successful TryIncrement holds a reference")
				rc.Decrement()
			}
		}()
	}
	wg.Add(1)
	go func() { // the owner drops the initial reference
		defer wg.Done()
		rc.Decrement()
	}()
	wg.Wait()
	verifAssert(zero == 1, "cleanup runs exactly once when the count reaches zero")
	verifAssert(!rc.TryIncrement(), "the resource cannot be re-acquired after it reached zero")
	verifAssert(zero == 1, "still exactly once")
	acquired := false
	for _, g := range got {
		acquired = acquired || g
	}
	if acquired {
		verifCover("user-acquired")
	} else {
		verifCover("user-too-late")
	}
}
