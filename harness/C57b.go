//go:build verif

// C57 (part b): expiring cache: the expiry callback runs at most once per entry.
//verif:pkg internal/cache
//verif:bound loop=40 steps=4000000 preempt=3 paths=400000
//verif:noreplay schedule-dependent: the interleaving is part of the witness and cannot be forced natively; witnesses are re-executed deterministically in the engine from the recorded decision prefix
//verif:outside more than one entry racing with one Remove / Clear; timer model: the callback goroutine may start at any point after the timeout elapsed, Stop reports whether it had not yet started (time.AfterFunc contract)
package cache

import (
	"sync"
	"time"
)

func verifH_C57_cache() {
	c := NewTimeoutCache(time.Second)
	calls := 0
	item, ok := c.Add("k", 42, func() { calls++ })
	verifAssert(ok && item == 42, "entry added")
	if verifBool("expire-early") {
		verifAdvance(int64(2 * time.Second)) // the timeout elapses now: the expiry goroutine is started and races with what follows
	}
	var wg sync.WaitGroup
	mode := verifChoice("mode", 3) // 0 Remove, 1 Clear(true), 2 Clear(false)
	removed := false
	removers := 1
	if mode == 0 {
		removers = 2 // two concurrent removals: the entry goes to exactly one of them
	}
	gotIt := make([]bool, removers)
	for i := 0; i < removers; i++ {
		wg.Add(1)
		i := i
		go func() {
			defer wg.Done()
			switch mode {
			case 0:
				it, ok := c.Remove("k")
				if ok {
					verifAssert(it == 42, "removal returns the stored item")
					gotIt[i] = true
				}
			case 1:
				c.Clear(true)
			case 2:
				c.Clear(false)
			}
		}()
	}
	wg.Wait()
	for _, g := range gotIt {
		if g {
			verifAssert(!removed, "a removal returns the entry to exactly one caller")
			removed = true
		}
	}
	// the key may be added again while the first entry's expiry goroutine has started but not yet run (balancergroup does
	// this on remove / add of one child id around the close timeout)
	calls2, added2 := 0, false
	if mode == 0 && verifBool("the-key-is-added-again") {
		_, added2 = c.Add("k", 43, func() { calls2++ })
		verifAssert(added2, "after the removals the key is free again")
	}
	verifAtQuiescence(func() {
		// everything, including a pending expiry, has run
		if added2 {
			verifAssert(calls2 == 1, "a newer entry under the same key is not dropped by the older entry's expiry: it expires on its own, once")
			verifCover("re-added")
		}
		verifAssert(calls <= 1, "the expiry callback runs at most once")
		switch mode {
		case 0:
			if removed {
				verifAssert(calls == 0, "never runs for an entry that was removed before it expired")
				verifCover("removed-first")
			} else {
				verifAssert(calls == 1, "runs exactly once for an entry that expired")
				verifCover("expired-first")
			}
		case 1:
			verifAssert(calls == 1, "runs exactly once when the cache is cleared with callbacks (or the entry expired)")
			verifCover("cleared-with-callbacks")
		case 2:
			verifCover("cleared-without-callbacks")
		}
		verifAssert(c.Len() == 0, "the entry is gone")
	})
}
