//go:build verif

// C58 (part a): per-RPC credentials that require transport security are never sent over a weak connection
// (handshake-time check in NewHTTP2Client, per-call check in getCallAuthData, dial-level metadata in getTrAuthData).
//verif:pkg internal/transport
//verif:bound loop=16 steps=4000000
//verif:stub google.golang.org/grpc/internal/transport.newFramer => verifStubNewFramer
//verif:noreplay-stubbed
//verif:outside real handshakes (TLS/ALTS/local): the handshaker is a harness TransportCredentials returning an arbitrary AuthInfo; NewHTTP2Client is executed from its entry up to the construction of the framer (everything after the credential check is cut)
package transport

import (
	"context"
	"net"

	"google.golang.org/grpc/codes"
	"google.golang.org/grpc/credentials"
	"google.golang.org/grpc/mem"
	"google.golang.org/grpc/resolver"
	"google.golang.org/grpc/status"
)

type verifCutFramer struct{}

var verifReachedFramer bool

func verifStubNewFramer(conn net.Conn, writeBufferSize, readBufferSize int, sharedWriteBuffer bool, maxHeaderListSize uint32, memPool mem.BufferPool) *framer {
	verifReachedFramer = true
	panic(verifCutFramer{})
}

type verifConn struct {
	net.Conn
	closed int
}

func (c *verifConn) Close() error         { c.closed++; return nil }
func (c *verifConn) RemoteAddr() net.Addr { return nil }
func (c *verifConn) LocalAddr() net.Addr  { return nil }

// AuthInfo with and without CommonAuthInfo
type verifAuthC struct{ credentials.CommonAuthInfo }

func (verifAuthC) AuthType() string { return "c" }

type verifAuthN struct{}

func (verifAuthN) AuthType() string { return "n" }

type verifTC struct {
	credentials.TransportCredentials
	ai    credentials.AuthInfo
	proto string
}

func (t *verifTC) ClientHandshake(ctx context.Context, auth string, c net.Conn) (net.Conn, credentials.AuthInfo, error) {
	return c, t.ai, nil
}
func (t *verifTC) Info() credentials.ProtocolInfo {
	return credentials.ProtocolInfo{SecurityProtocol: t.proto}
}

type verifPRC struct {
	require bool
	calls   int
	md      map[string]string
}

func (p *verifPRC) GetRequestMetadata(ctx context.Context, uri ...string) (map[string]string, error) {
	p.calls++
	return p.md, nil
}
func (p *verifPRC) RequireTransportSecurity() bool { return p.require }

type verifBundle struct {
	tc  credentials.TransportCredentials
	prc credentials.PerRPCCredentials
}

func (b *verifBundle) TransportCredentials() credentials.TransportCredentials { return b.tc }
func (b *verifBundle) PerRPCCredentials() credentials.PerRPCCredentials     { return b.prc }
func (b *verifBundle) NewWithMode(string) (credentials.Bundle, error)       { return b, nil }

func verifAuthInfo() (ai credentials.AuthInfo, known bool, level credentials.SecurityLevel) {
	if verifBool("common") {
		level = credentials.SecurityLevel(verifChoice("level", 4)) // Invalid, NoSecurity, IntegrityOnly, PrivacyAndIntegrity
		return verifAuthC{credentials.CommonAuthInfo{SecurityLevel: level}}, level != credentials.InvalidSecurityLevel, level
	}
	return verifAuthN{}, false, 0
}

// handshake-time check: a connection whose negotiated level is known and below privacy-and-integrity is
// refused when any configured per-RPC credential (dial option or bundle) requires transport security
func verifH_C58_handshake() {
	ai, known, level := verifAuthInfo()
	tc := &verifTC{ai: ai, proto: "x"}
	opts := ConnectOptions{Dialer: func(context.Context, string) (net.Conn, error) { return &verifConn{}, nil }}
	opts.KeepaliveParams.Time = infinity
	anyRequire := false
	var creds []*verifPRC
	if verifBool("dialCred") {
		p := &verifPRC{require: verifBool("dialRequire")}
		creds = append(creds, p)
		opts.PerRPCCredentials = append(opts.PerRPCCredentials, p)
		anyRequire = anyRequire || p.require
	}
	if verifBool("bundle") {
		b := &verifBundle{tc: tc}
		if verifBool("bundleCred") {
			p := &verifPRC{require: verifBool("bundleRequire")}
			creds = append(creds, p)
			b.prc = p
			anyRequire = anyRequire || p.require
		}
		opts.CredsBundle = b
	} else {
		opts.TransportCredentials = tc
	}
	verifReachedFramer = false
	var err error
	func() {
		defer func() {
			if r := recover(); r != nil {
				if _, ok := r.(verifCutFramer); !ok {
					panic(r)
				}
			}
		}()
		_, err = NewHTTP2Client(context.Background(), context.Background(), resolver.Address{Addr: "srv"}, opts, func(GoAwayInfo) {})
	}()
	weak := known && level < credentials.PrivacyAndIntegrity
	if anyRequire && weak {
		verifAssert(err != nil && !verifReachedFramer, "connection refused: secure per-RPC credentials on a connection below privacy-and-integrity")
		verifCover("refused")
	} else {
		verifAssert(err == nil && verifReachedFramer, "connection accepted")
		verifCover("accepted")
	}
	for _, p := range creds {
		verifAssert(p.calls == 0, "no credential metadata requested during connection setup")
	}
}

// per-call credentials: metadata is produced only on a connection that satisfies the requirement, unchanged
func verifH_C58_callcreds() {
	ai, known, level := verifAuthInfo()
	hasAI := verifBool("hasAuthInfo")
	t := &http2Client{isSecure: verifBool("isSecure")}
	ri := credentials.RequestInfo{Method: "/s/m"}
	if hasAI {
		ri.AuthInfo = ai
	}
	ctx := credentials.NewContextWithRequestInfo(context.Background(), ri)
	p := &verifPRC{require: verifBool("require"), md: map[string]string{"Auth-K": "v1"}}
	md, err := t.getCallAuthData(ctx, "aud", &CallHdr{Creds: p})
	weak := !t.isSecure || !hasAI || (known && level < credentials.PrivacyAndIntegrity)
	if p.require && weak {
		verifAssert(err != nil && status.Code(err) == codes.Unauthenticated, "RPC fails with UNAUTHENTICATED")
		verifAssert(p.calls == 0 && md == nil, "no credential metadata is produced")
		verifCover("refused")
	} else {
		verifAssert(err == nil && p.calls == 1, "credential consulted exactly once")
		verifAssert(len(md) == 1 && md["auth-k"] == "v1", "credential metadata delivered unchanged (key lower-cased)")
		verifCover("delivered")
	}
}

// dial-level credentials attached to the transport: metadata delivered unchanged
func verifH_C58_trcreds() {
	p := &verifPRC{md: map[string]string{"K": "v"}}
	q := &verifPRC{md: map[string]string{"k2": "w"}}
	t := &http2Client{perRPCCreds: []credentials.PerRPCCredentials{p, q}}
	md, err := t.getTrAuthData(context.Background(), "aud")
	verifAssert(err == nil && len(md) == 2 && md["k"] == "v" && md["k2"] == "w", "dial-level credential metadata delivered unchanged")
	verifCover("done")
}
