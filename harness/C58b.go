//go:build verif

// C58 (part b): dial-time validation: secure per-RPC credentials with an insecure transport are refused.
//verif:pkg .
//verif:bound loop=16 steps=2000000
package grpc

import (
	"context"

	"google.golang.org/grpc/credentials"
)

type verifTC58 struct {
	credentials.TransportCredentials
	proto string
}

func (t *verifTC58) Info() credentials.ProtocolInfo {
	return credentials.ProtocolInfo{SecurityProtocol: t.proto}
}

type verifPRC58 struct{ require bool }

func (p *verifPRC58) GetRequestMetadata(context.Context, ...string) (map[string]string, error) {
	return nil, nil
}
func (p *verifPRC58) RequireTransportSecurity() bool { return p.require }

type verifBundle58 struct{ tc credentials.TransportCredentials }

func (b *verifBundle58) TransportCredentials() credentials.TransportCredentials { return b.tc }
func (b *verifBundle58) PerRPCCredentials() credentials.PerRPCCredentials     { return nil }
func (b *verifBundle58) NewWithMode(string) (credentials.Bundle, error)       { return b, nil }

func verifH_C58_dialcheck() {
	cc := &ClientConn{}
	insecureProto := verifBool("insecure")
	proto := "tls"
	if insecureProto {
		proto = "insecure"
	}
	tc := &verifTC58{proto: proto}
	mode := verifChoice("mode", 4) // 0 none, 1 transport creds, 2 bundle with creds, 3 bundle without creds
	switch mode {
	case 1:
		cc.dopts.copts.TransportCredentials = tc
	case 2:
		cc.dopts.copts.CredsBundle = &verifBundle58{tc: tc}
	case 3:
		cc.dopts.copts.CredsBundle = &verifBundle58{}
	}
	n := verifChoice("ncreds", 3)
	anyRequire := false
	for i := 0; i < n; i++ {
		p := &verifPRC58{require: verifBool("require")}
		anyRequire = anyRequire || p.require
		cc.dopts.copts.PerRPCCredentials = append(cc.dopts.copts.PerRPCCredentials, p)
	}
	err := cc.validateTransportCredentials()
	switch {
	case mode == 0 || mode == 3:
		verifAssert(err != nil, "no transport credentials: dial refused")
		verifCover("no-creds")
	case insecureProto && anyRequire:
		verifAssert(err == errTransportCredentialsMissing, "secure per-RPC credentials over an insecure transport: dial refused")
		verifCover("refused")
	default:
		verifAssert(err == nil, "otherwise accepted")
		verifCover("accepted")
	}
}
