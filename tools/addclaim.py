#!/usr/bin/env python3
"""usage: addclaim.py <id> <text> <note>  -- adds/replaces a claimed check in tools/claims.json and regenerates MANIFEST.json"""
import json, sys, subprocess
p = '/verif/tools/claims.json'
c = json.load(open(p))
c[sys.argv[1]] = {"claimed": True, "text": sys.argv[2], "note": sys.argv[3]}
json.dump(c, open(p, 'w'), indent=1)
subprocess.check_call(['python3', '/verif/tools/mkmanifest.py'])
