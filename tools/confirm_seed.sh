#!/bin/bash
# usage: confirm_seed.sh <worktree> <seed-name> <pkgdir> <demo-run-regex> [extra pkgs...]
# Confirms a seeded change: demo fails with it, passes without it, package tests pass with it.
set -u
wt="$1"; name="$2"; pkg="$3"; rx="$4"; shift 4
export GOFLAGS=-mod=mod GOPROXY=off GOSUMDB=off GOTOOLCHAIN=local PATH=/opt/veriftools/go1.26.8/bin:$PATH
cd "$wt" || exit 2
out=/verif/seeded/$name; mkdir -p "$out"
demo=$(ls $pkg/zz_seeded_demo_test.go 2>/dev/null)
[ -f SEEDED_patch.diff ] || { echo "no patch"; exit 2; }
# normalise: make sure patch is applied
git apply -R --check SEEDED_patch.diff 2>/dev/null || git apply SEEDED_patch.diff
echo "== build"; go build ./... || { echo BUILD-FAIL; exit 1; }
echo "== demo WITH change (must fail)"; go test -count=1 -run "$rx" ./$pkg/ > /tmp/seed_with.txt 2>&1; w=$?
tail -5 /tmp/seed_with.txt
git apply -R SEEDED_patch.diff
echo "== demo WITHOUT change (must pass)"; go test -count=1 -run "$rx" ./$pkg/ > /tmp/seed_without.txt 2>&1; wo=$?
tail -3 /tmp/seed_without.txt
git apply SEEDED_patch.diff
echo "== existing tests WITH change"; mv $demo /tmp/zz_demo_hold.go; if [ "$pkg" = "." ]; then tp=". ./test/"; else tp="./$pkg/..."; fi; go test -count=1 $tp "$@" > /tmp/seed_tests.txt 2>&1; t=$?; mv /tmp/zz_demo_hold.go $demo
tail -6 /tmp/seed_tests.txt
echo "RESULT with=$w without=$wo tests=$t"
if [ $w -ne 0 ] && [ $wo -eq 0 ] && [ $t -eq 0 ]; then
  cp SEEDED_patch.diff "$out/patch.diff"; cp $demo "$out/"; 
  python3 - "$out" "$name" "$pkg" "$rx" "$@" <<'PY'
import json,sys
out,name,pkg,rx=sys.argv[1:5]
m=json.load(open('SEEDED_meta.json'))
m['confirmed']={'demo_with_change':'FAIL (exit!=0)','demo_without_change':'PASS','existing_tests_with_change':'PASS',
  'commands':['go build ./...','go test -count=1 -run %r ./%s/ (with and without patch)'%(rx,pkg),'go test -count=1 ./%s/... %s (demo moved aside)'%(pkg,' '.join(sys.argv[5:]))]}
m['demo_file']=pkg+'/zz_seeded_demo_test.go'
json.dump(m,open(out+'/meta.json','w'),indent=1)
PY
  echo CONFIRMED
else echo NOT-CONFIRMED; fi
