#!/bin/sh
# harness/C44.go is the C43 authority harness under the C44 entry names (both properties are decided by the same event-driven run of the real authority)
sed -e 's/verifH_C43_/verifH_C44_/g' -e '1,4s#^// C43 / C44:#// GENERATED from C43.go by tools/gen_c44.sh -- C44 / C43:#' /verif/harness/C43.go > /verif/harness/C44.go
