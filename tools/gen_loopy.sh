#!/bin/bash
# Regenerates harness/C02.go and harness/C03.go from harness/C01.go (same machinery, different assertion sets).
cd /verif/harness
sed -e 's/^const verifProp = 1 /const verifProp = 2 /' -e 's/verifH_C01_/verifH_C02_/g' \
    -e '3s|.*|// C02: per-stream byte order, completeness and END_STREAM placement on the write path (loopyWriter). GENERATED from C01.go by tools/gen_loopy.sh|' C01.go > C02.go
sed -e 's/^const verifProp = 1 /const verifProp = 3 /' -e 's/verifH_C01_/verifH_C03_/g' \
    -e '3s|.*|// C03: a stream with data and credit is eventually written: scheduling invariants and per-round progress (loopyWriter). GENERATED from C01.go by tools/gen_loopy.sh|' C01.go > C03.go
