#!/usr/bin/env python3
"""Regenerates /verif/MANIFEST.json from tools/claims.json (claimed checks) and properties.jsonl."""
import json, os
V = '/verif'
props = [json.loads(l) for l in open(f'{V}/properties.jsonl')]
claims = json.load(open(f'{V}/tools/claims.json'))
base = json.load(open('/root/.vp/BASELINE.json'))['cmd'] if os.path.exists('/root/.vp/BASELINE.json') else json.load(open(f'{V}/MANIFEST.json'))['hooks']['baseline_off_cmd']
fix_commits = claims.get('_fix_commits', [])
checks, na = [], []
for p in props:
    pid = p['id']
    c = claims.get(pid)
    if c and c.get('claimed'):
        checks.append({
            "property_id": pid,
            "quick_cmd": f"./check {pid} quick",
            "thorough_cmd": f"./check {pid} thorough",
            "evidence_file": f"/verif/evidence/{pid}.json",
            "replay_cmd_template": "cat {path}  # inputs of the counterexample; re-run ./check %s quick to reproduce" % pid,
            "engine": "gosx",
            "level_claimed": {"category": "model_checking", "text": c['text'], "design_ref": c.get('design_ref', 'DESIGN.md section 5, ' + pid)},
            "level_note": c['note'],
            "technique": c.get('technique', 'bounded symbolic execution of the real Go SSA, assertions discharged by SMT (z3 5.1 / cvc5 incl. int-blasting), counterexamples replayed natively'),
        })
    else:
        na.append({"property_id": pid, "reason": (c or {}).get('reason', 'harness not built yet for the SSA->SMT engine (see DESIGN.md build order); not switched to another technique')})
m = {
    "version": 1,
    "setup_cmd": "./build.sh",
    "hooks": {"guard": "verif", "enable": "harness + prelude files are injected by go/packages Overlay and `go test -tags verif -overlay <json>`; /repo carries no hook commits",
              "baseline_off_cmd": base, "source_commits": fix_commits, "add_only": True},
    "engines": [{"name": "gosx", "path": "/verif/engine", "serves_properties": [c['property_id'] for c in checks],
                 "kind_free_text": "symbolic executor for Go SSA (golang.org/x/tools/go/ssa) emitting SMT-LIB2 (bit-vectors, floating point) to z3 5.1.0 / cvc5 1.0 (incl. --solve-bv-as-int) with native replay of solver models"}],
    "checks": checks,
    "notes": "All checks use one technique: solver-based bounded checking of the real code (DESIGN.md). exit 0 = all obligations unsat within the stated bounds; exit 1 + VIOLATION = solver counterexample (replayed natively where the harness has a native twin); exit 2 = inconclusive (unknown/timeout/unsupported/bound hit) and is never reported as success.",
    "not_applicable": na,
}
json.dump(m, open(f'{V}/MANIFEST.json', 'w'), indent=1)
print(len(checks), 'claimed;', len(na), 'not applicable')
