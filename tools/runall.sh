#!/bin/bash
# usage: runall.sh [tier]  -- runs every claimed check, prints one line per property
tier="${1:-quick}"
cd /verif
for id in $(python3 -c "import json;print(' '.join(c['property_id'] for c in json.load(open('MANIFEST.json'))['checks']))"); do
  t0=$(date +%s)
  ./check $id $tier > /tmp/runall_$id.log 2>&1; rc=$?
  echo "$id exit=$rc $(( $(date +%s) - t0 ))s $(grep -c VIOLATION /tmp/runall_$id.log) violations $(grep -c '^INCONCLUSIVE' /tmp/runall_$id.log) inconclusive"
done
