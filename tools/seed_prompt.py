#!/usr/bin/env python3
"""usage: seed_prompt.py <property id> <suffix>  -- creates a scratch worktree /tmp/wt-<id>-<suffix> and prints the sub-agent prompt"""
import json, sys, subprocess, os
pid, suf = sys.argv[1], sys.argv[2]
wt = f'/tmp/wt-{pid}-{suf}'
if not os.path.exists(wt):
    subprocess.check_call(['git', '-C', '/repo', 'worktree', 'add', '--detach', '-f', wt, 'HEAD'], stdout=subprocess.DEVNULL, stderr=subprocess.DEVNULL)
p = [json.loads(l) for l in open('/verif/properties.jsonl') if json.loads(l)['id'] == pid][0]
print(f"""You are working in a scratch git worktree of the grpc-go repository at {wt} (Go module google.golang.org/grpc). Work ONLY inside {wt}; do not read or touch /repo or /verif, and do not look for any verification tooling elsewhere on the machine.

Every shell command needs this environment (it is not kept between calls):
  export GOFLAGS=-mod=mod GOPROXY=off GOSUMDB=off GOTOOLCHAIN=local PATH=/opt/veriftools/go1.26.8/bin:$PATH
There is no network; nothing can be downloaded.

Here is a semantic property that grpc-go is supposed to satisfy:

  Title: {p['title']}
  Statement: {p['statement']}
  Quantified over: {p['quantifier']['text']}
  Code it is anchored in: {', '.join(p['anchors']['files'])}

Your task: make ONE small, realistic change to the non-test Go source of grpc-go in this worktree (the kind of slip a maintainer could make in a refactor or an "optimisation": an off-by-one, a wrong comparison, a dropped condition, a wrong order of two steps, a missing reset, two sites that each look fine alone) that BREAKS this property, while
  (a) everything still compiles (`go build ./...`),
  (b) the existing tests of the packages you touched and of their direct users still pass (`go test -count=1 ./<pkg>/...`), and
  (c) the break needs something specific to manifest: an unusual input or boundary value, a particular multi-step sequence of operations, a particular interleaving, a fault at a particular point, or an unusual configuration. Do NOT make a change that ordinary use would expose at once.
Do not change or delete any existing test. Do not add build tags. Keep the change under ~15 changed lines.

Also write a demonstration: a new test file named zz_seeded_demo_test.go in the package you changed (function name starting with TestZZSeeded) that FAILS with your change and PASSES without it (check both, e.g. with `git stash` on the non-test file, or `git diff > p; git apply -R p`).

When done, leave in the worktree root:
  - SEEDED_patch.diff : output of `git diff` for the non-test source change only (not the demo test),
  - SEEDED_meta.json : {{"property": "{pid}", "summary": "<what you changed and why it breaks the property>", "needs_to_manifest": "<the specific input/sequence/interleaving needed>", "demo": {{"path": "<demo test path>", "command": "<go test command>", "with_change": "<how it fails>", "without_change": "PASS"}}, "tests_run": ["<commands you ran and their results>"]}}
and leave the change applied and the demo test in place. In your final answer, give a 5-line summary: file changed, what the change is, what is needed to manifest, the demo command, and the test commands you ran with results.""")
