#!/bin/bash
# usage: try_seed.sh <seed-name> <property> [tier] [extra gosx args]  -- applies the seeded patch to /repo, runs the check, reverts
name="$1"; prop="$2"; tier="${3:-quick}"; shift 3 2>/dev/null
cd /repo && git apply /verif/seeded/$name/patch.diff || exit 2
cd /verif && timeout 3000 ./bin/gosx check -tier $tier -j ${VERIF_JOBS:-12} "$@" $prop > /tmp/try_$name.log 2>&1; rc=$?
cd /repo && git checkout -- . 
echo "seed=$name property=$prop exit=$rc"; grep -E "VIOLATION|KNOWN|INCONCLUSIVE property|harness=" /tmp/try_$name.log | cut -c1-400 | head -8
